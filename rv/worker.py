import sys
from rv.core import worker_main
if __name__ == '__main__':
    sys.exit(worker_main(sys.argv[1:]))
