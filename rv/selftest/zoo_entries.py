"""Realistic single-site breaks.  Each still imports and (checked with --tests)
passes the repository's 55 tests.  (id, property, file, old, new[, occurrence])"""
ZOO = [
    # ---- C07 kalman.correct
    ('C07-upper-solve', 'C07', 'kalman.py',
     "solve_triangular(L, e, lower=True)", "solve_triangular(L.T, e, lower=False)"),
    ('C07-unnormalised', 'C07', 'kalman.py',
     "solve_triangular(L, e, lower=True))", "e / np.sqrt(np.diag(S)))"),
    ('C07-alias-P', 'C07', 'kalman.py',
     "    HP = H @ P\n", "    HP = H @ P\n    P *= 1.0; P[0, 0] += 0.0; P[:] = 0.5 * (P + P.T)\n"),
    ('C07-diagR', 'C07', 'kalman.py',
     "S = HP @ H.T + R", "S = HP @ H.T + np.diag(np.diag(R))"),
    ('C07-cho-upper', 'C07', 'kalman.py',
     "cho_solve((L, True), HP", "cho_solve((L, False), HP"),
]
ZOO += [
    # ---- C08 kalman.compute_process_matrices
    ('C08-no-PhiT', 'C08', 'kalman.py', "H[:n, n:] @ H[:n, :n].T", "H[:n, n:]"),
    ('C08-sign', 'C08', 'kalman.py', "H[n:, n:] = -F.T", "H[n:, n:] = F.T"),
    ('C08-first-order', 'C08', 'kalman.py', "    H = expm(H * dt)\n",
     "    H = np.eye(2 * n) + H * dt + 0.5 * (H * dt) @ (H * dt)\n"),
    ('C08-Qdt', 'C08', 'kalman.py', "return H[:n, :n], H[:n, n:] @ H[:n, :n].T",
     "return H[:n, :n], H[:n, :n] @ Q @ H[:n, :n].T * dt"),
    ('C08-noT', 'C08', 'kalman.py', "H[n:, n:] = -F.T", "H[n:, n:] = -F"),
    ('C08-inplace', 'C08', 'kalman.py', "    H = expm(H * dt)\n",
     "    F *= dt; Q *= dt\n    H[:n, :n] = F; H[:n, n:] = Q; H[n:, n:] = -F.T\n    H = expm(H)\n"
     "    if dt != 0:\n        F /= dt; Q /= dt\n"),
]
