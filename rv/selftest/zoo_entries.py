"""Realistic single-site breaks.  Each still imports and (checked with --tests)
passes the repository's 55 tests.  (id, property, file, old, new[, occurrence])"""
ZOO = [
    # ---- C07 kalman.correct
    ('C07-upper-solve', 'C07', 'kalman.py',
     "solve_triangular(L, e, lower=True)", "solve_triangular(L.T, e, lower=False)"),
    ('C07-unnormalised', 'C07', 'kalman.py',
     "solve_triangular(L, e, lower=True))", "e / np.sqrt(np.diag(S)))"),
    ('C07-alias-P', 'C07', 'kalman.py',
     "    HP = H @ P\n", "    HP = H @ P\n    P *= 1.0; P[0, 0] += 0.0; P[:] = 0.5 * (P + P.T)\n"),
    ('C07-diagR', 'C07', 'kalman.py',
     "S = HP @ H.T + R", "S = HP @ H.T + np.diag(np.diag(R))"),
    ('C07-cho-upper', 'C07', 'kalman.py',
     "cho_solve((L, True), HP", "cho_solve((L, False), HP"),
]
ZOO += [
    # ---- C08 kalman.compute_process_matrices
    ('C08-no-PhiT', 'C08', 'kalman.py', "H[:n, n:] @ H[:n, :n].T", "H[:n, n:]"),
    ('C08-sign', 'C08', 'kalman.py', "H[n:, n:] = -F.T", "H[n:, n:] = F.T"),
    ('C08-first-order', 'C08', 'kalman.py', "    H = expm(H * dt)\n",
     "    H = np.eye(2 * n) + H * dt + 0.5 * (H * dt) @ (H * dt)\n"),
    ('C08-Qdt', 'C08', 'kalman.py', "return H[:n, :n], H[:n, n:] @ H[:n, :n].T",
     "return H[:n, :n], H[:n, :n] @ Q @ H[:n, :n].T * dt"),
    ('C08-noT', 'C08', 'kalman.py', "H[n:, n:] = -F.T", "H[n:, n:] = -F"),
    ('C08-inplace', 'C08', 'kalman.py', "    H = expm(H * dt)\n",
     "    F *= dt; Q *= dt\n    H[:n, :n] = F; H[:n, n:] = Q; H[n:, n:] = -F.T\n    H = expm(H)\n"
     "    if dt != 0:\n        F /= dt; Q /= dt\n"),
]
ZOO += [
    # ---- C16 earth / geodetic transforms
    ('C16-ecef-z', 'C16', 'transform.py', "r_e[2] = ((1 - earth.E2) * re + alt) * sin_lat",
     "r_e[2] = (re + alt) * sin_lat * (1 - earth.E2)"),
    ('C16-curv-south', 'C16', 'earth.py', "np.tan(np.deg2rad(lat))", "np.tan(np.deg2rad(np.abs(lat)))"),
    ('C16-g0-sign', 'C16', 'earth.py', "g0_g[0] = RATE**2 * rp * sin_lat", "g0_g[0] = -RATE**2 * rp * sin_lat"),
    ('C16-olson-a4', 'C16', 'transform.py', "a4 = 2.5 * a2", "a4 = 2.0 * a2"),
    ('C16-rp-alt', 'C16', 'earth.py', "return rn + alt, re + alt, (re + alt) * cos_lat",
     "return rn + alt, re + alt, re * cos_lat + alt"),
    ('C16-gravity-compiled', 'C16', '_numba_integrate.py', "(1 - 2 * alt / earth.A))", "(1 - 2 * alt / earth.A) ** 1.0000001)"),
    ('C16-diff-radii', 'C16', 'transform.py', "result[:, 1] = np.deg2rad(diff[:, 1]) * rp",
     "result[:, 1] = np.deg2rad(diff[:, 1]) * rp * (1 + 1e-5)"),
    ('C16-lon-west', 'C16', 'transform.py', "lla[:, 1] += np.rad2deg(dr_n[:, 1] / rp)",
     "lla[:, 1] += np.rad2deg(dr_n[:, 1] / rp) * np.where(lla[:, 1] < -179.5, 1 + 1e-4, 1)"),
    ('C16-scalar-maten', 'C16', 'transform.py',
     "return Rotation.from_euler('ZY', [lon, -90 - lat], degrees=True).as_matrix()",
     "return Rotation.from_euler('ZY', [lon, -90 - lat + 1e-7], degrees=True).as_matrix()"),
]
ZOO += [
    # ---- C17 attitude / rotation primitives
    ('C17-taylor-k1', 'C17', '_numba_integrate.py', "k1 = 1 - norm2 / 6 + norm4 / 120", "k1 = 1 - norm2 / 6 + norm4 / 24"),
    ('C17-taylor-cos', 'C17', '_numba_integrate.py', "cos = 1 - norm2 / 2 + norm4 / 24", "cos = 1 - norm2 / 2 + norm4 / 12"),
    ('C17-branch-norm', 'C17', '_numba_integrate.py', "if norm2 > 1e-6:", "if norm2 > 1e-3:"),
    ('C17-taylor-k2', 'C17', '_numba_integrate.py', "k2 = 0.5 - norm2 / 24 + norm4 / 720", "k2 = 0.5 - norm2 / 12 + norm4 / 720"),
    ('C17-phi-heading-pitch', 'C17', 'error_model.py', "result[:, 2, 1] = -sin[:, 2] * sin[:, 1] / cos[:, 1]",
     "result[:, 2, 1] = -sin[:, 2] * sin[:, 1]"),
    ('C17-phi-roll-sign', 'C17', 'error_model.py', "result[:, 0, 1] = -sin[:, 2] / cos[:, 1]",
     "result[:, 0, 1] = -sin[:, 2] * cos[:, 1]"),
    ('C17-to-rph-wrap', 'C17', 'transform.py', "return Rotation.from_matrix(mat).as_euler('xyz', degrees=True)",
     "rph = Rotation.from_matrix(mat).as_euler('xyz', degrees=True)\n    return np.where(rph < -179.9999, rph + 360 + 1e-6, rph)"),
]
