"""Realistic single-site breaks.  Each still imports and (checked with --tests)
passes the repository's 55 tests.  (id, property, file, old, new[, occurrence])"""
ZOO = [
    # ---- C07 kalman.correct
    ('C07-upper-solve', 'C07', 'kalman.py',
     "solve_triangular(L, e, lower=True)", "solve_triangular(L.T, e, lower=False)"),
    ('C07-unnormalised', 'C07', 'kalman.py',
     "solve_triangular(L, e, lower=True))", "e / np.sqrt(np.diag(S)))"),
    ('C07-alias-P', 'C07', 'kalman.py',
     "    HP = H @ P\n", "    HP = H @ P\n    P *= 1.0; P[0, 0] += 0.0; P[:] = 0.5 * (P + P.T)\n"),
    ('C07-diagR', 'C07', 'kalman.py',
     "S = HP @ H.T + R", "S = HP @ H.T + np.diag(np.diag(R))"),
    ('C07-cho-upper', 'C07', 'kalman.py',
     "cho_solve((L, True), HP", "cho_solve((L, False), HP"),
]
ZOO += [
    # ---- C08 kalman.compute_process_matrices
    ('C08-no-PhiT', 'C08', 'kalman.py', "H[:n, n:] @ H[:n, :n].T", "H[:n, n:]"),
    ('C08-sign', 'C08', 'kalman.py', "H[n:, n:] = -F.T", "H[n:, n:] = F.T"),
    ('C08-first-order', 'C08', 'kalman.py', "    H = expm(H * dt)\n",
     "    H = np.eye(2 * n) + H * dt + 0.5 * (H * dt) @ (H * dt)\n"),
    ('C08-Qdt', 'C08', 'kalman.py', "return H[:n, :n], H[:n, n:] @ H[:n, :n].T",
     "return H[:n, :n], H[:n, :n] @ Q @ H[:n, :n].T * dt"),
    ('C08-noT', 'C08', 'kalman.py', "H[n:, n:] = -F.T", "H[n:, n:] = -F"),
    ('C08-inplace', 'C08', 'kalman.py', "    H = expm(H * dt)\n",
     "    F *= dt; Q *= dt\n    H[:n, :n] = F; H[:n, n:] = Q; H[n:, n:] = -F.T\n    H = expm(H)\n"
     "    if dt != 0:\n        F /= dt; Q /= dt\n"),
]
ZOO += [
    # ---- C16 earth / geodetic transforms
    ('C16-ecef-z', 'C16', 'transform.py', "r_e[2] = ((1 - earth.E2) * re + alt) * sin_lat",
     "r_e[2] = (re + alt) * sin_lat * (1 - earth.E2)"),
    ('C16-curv-south', 'C16', 'earth.py', "np.tan(np.deg2rad(lat))", "np.tan(np.deg2rad(np.abs(lat)))"),
    ('C16-g0-sign', 'C16', 'earth.py', "g0_g[0] = RATE**2 * rp * sin_lat", "g0_g[0] = -RATE**2 * rp * sin_lat"),
    ('C16-olson-a4', 'C16', 'transform.py', "a4 = 2.5 * a2", "a4 = 2.0 * a2"),
    ('C16-rp-alt', 'C16', 'earth.py', "return rn + alt, re + alt, (re + alt) * cos_lat",
     "return rn + alt, re + alt, re * cos_lat + alt"),
    ('C16-gravity-compiled', 'C16', '_numba_integrate.py', "(1 - 2 * alt / earth.A))", "(1 - 2 * alt / earth.A) ** 1.0000001)"),
    ('C16-diff-radii', 'C16', 'transform.py', "result[:, 1] = np.deg2rad(diff[:, 1]) * rp",
     "result[:, 1] = np.deg2rad(diff[:, 1]) * rp * (1 + 1e-5)"),
    ('C16-lon-west', 'C16', 'transform.py', "lla[:, 1] += np.rad2deg(dr_n[:, 1] / rp)",
     "lla[:, 1] += np.rad2deg(dr_n[:, 1] / rp) * np.where(lla[:, 1] < -179.5, 1 + 1e-4, 1)"),
    ('C16-scalar-maten', 'C16', 'transform.py',
     "return Rotation.from_euler('ZY', [lon, -90 - lat], degrees=True).as_matrix()",
     "return Rotation.from_euler('ZY', [lon, -90 - lat + 1e-7], degrees=True).as_matrix()"),
]
ZOO += [
    # ---- C17 attitude / rotation primitives
    ('C17-taylor-k1', 'C17', '_numba_integrate.py', "k1 = 1 - norm2 / 6 + norm4 / 120", "k1 = 1 - norm2 / 6 + norm4 / 24"),
    ('C17-taylor-cos', 'C17', '_numba_integrate.py', "cos = 1 - norm2 / 2 + norm4 / 24", "cos = 1 - norm2 / 2 + norm4 / 12"),
    ('C17-branch-norm', 'C17', '_numba_integrate.py', "if norm2 > 1e-6:", "if norm2 > 1e-3:"),
    ('C17-taylor-k2', 'C17', '_numba_integrate.py', "k2 = 0.5 - norm2 / 24 + norm4 / 720", "k2 = 0.5 - norm2 / 12 + norm4 / 720"),
    ('C17-phi-heading-pitch', 'C17', 'error_model.py', "result[:, 2, 1] = -sin[:, 2] * sin[:, 1] / cos[:, 1]",
     "result[:, 2, 1] = -sin[:, 2] * sin[:, 1]"),
    ('C17-phi-roll-sign', 'C17', 'error_model.py', "result[:, 0, 1] = -sin[:, 2] / cos[:, 1]",
     "result[:, 0, 1] = -sin[:, 2] * cos[:, 1]"),
    ('C17-to-rph-wrap', 'C17', 'transform.py', "return Rotation.from_matrix(mat).as_euler('xyz', degrees=True)",
     "rph = Rotation.from_matrix(mat).as_euler('xyz', degrees=True)\n    return np.where(rph < -179.9999, rph + 360 + 1e-6, rph)"),
]
ZOO += [
    # ---- C18 differencing / resampling
    ('C18-sign', 'C18', 'transform.py', "            result_sign = -1.0\n", "            result_sign = 1.0\n"),
    ('C18-median', 'C18', 'transform.py', "if np.median(np.diff(first.index)) < np.median(np.diff(second.index)):",
     "if np.median(np.diff(first.index)) > np.median(np.diff(second.index)):"),
    ('C18-to180-ge', 'C18', 'util.py', "        result[result > 180] -= 360\n", "        result[result >= 180] -= 360\n"),
    ('C18-slerp-linear', 'C18', 'transform.py',
     "        result[RPH_COLS] = slerp(times).as_euler('xyz', True)\n",
     "        result[RPH_COLS] = interp1d(state.index, state[RPH_COLS].values, axis=0)(times)\n"),
    ('C18-span-open', 'C18', 'transform.py', "    times = times[(times >= state.index[0]) & (times <= state.index[-1])]",
     "    times = times[(times > state.index[0]) & (times <= state.index[-1])]"),
    ('C18-mean-radii', 'C18', 'transform.py', "        rn, _, rp = earth.principal_radii(0.5 * (first.lat + second.lat),\n                                          0.5 * (first.alt + second.alt))\n        difference.lat *= rn * DEG_TO_RAD",
     "        rn, _, rp = earth.principal_radii(0.5 * (first.lat + second.lat),\n                                          0.5 * (first.alt - second.alt))\n        difference.lat *= rn * DEG_TO_RAD"),
    ('C18-colorder', 'C18', 'transform.py', "    return result[state.columns]\n", "    return result[sorted(state.columns)]\n"),
    ('C18-perturb-sign', 'C18', 'sim.py', "    result[RPH_COLS] += pva_error[RPH_COLS]\n    return result",
     "    result[RPH_COLS] += pva_error[RPH_COLS]\n    result['heading'] = util.to_180_range(result['heading'] + 1e-9)\n    return result"),
]
ZOO += [
    # ---- C05 error-state coordinates
    ('C05-phi-21', 'C05,C17', 'error_model.py', "result[:, 2, 1] = -sin[:, 2] * sin[:, 1] / cos[:, 1]",
     "result[:, 2, 1] = sin[:, 2] * sin[:, 1] / cos[:, 1]"),
    ('C05-no-vd-restore', 'C05,C13', 'error_model.py', "        if not self.with_altitude:\n            velocity_n[2] = pva.VD\n", ""),
    ('C05-2d-rows', 'C05', 'error_model.py', "        result[:, 5, 4] = VE\n        result[:, 5, 5] = -VN\n",
     "        result[:, 5, 4] = VN\n        result[:, 5, 5] = -VE\n"),
    ('C05-att-right', 'C05', 'error_model.py', "rph = transform.mat_to_rph(mat_tp @ transform.mat_from_rph(pva[RPH_COLS]))",
     "rph = transform.mat_to_rph(transform.mat_from_rph(pva[RPH_COLS]) @ mat_tp)"),
    ('C05-lat-radius', 'C05', 'transform.py', "    lla[:, 0] += np.rad2deg(dr_n[:, 0] / rn)\n", "    lla[:, 0] += np.rad2deg(dr_n[:, 0] / (rn + 2 * lla[:, 2]))\n"),
]
ZOO += [
    # ---- C06 measurement models
    ('C06-D5-revert', 'C06', 'measurements.py', "ned_velocity_error_jacobian(pva, self.imu_to_antenna_b)", "ned_velocity_error_jacobian(pva)"),
    ('C06-pos-lever-sign', 'C06', 'error_model.py', "result[:, self.PHI] = util.skew_matrix(mat_nb @ imu_to_antenna_b)",
     "result[:, self.PHI] = -util.skew_matrix(mat_nb @ imu_to_antenna_b)"),
    ('C06-R-2d', 'C06', 'measurements.py', "            R = R[:2, :2]\n\n        return z, H, R", "            R = R[:2, :2] * 2\n\n        return z, H, R"),
    ('C06-time-nearest', 'C06', 'measurements.py', "        if time not in self.data.index:\n            return None\n\n        mat_nb",
     "        if not np.any(np.isclose(self.data.index, time, rtol=0, atol=1e-3)):\n            return None\n        time = self.data.index[np.argmin(np.abs(self.data.index - time))]\n\n        mat_nb"),
    ('C06-ned-rate-cross', 'C06', 'measurements.py', "z += mat_nb @ np.cross(pva[RATE_COLS], self.imu_to_antenna_b)",
     "z += mat_nb @ np.cross(self.imu_to_antenna_b, pva[RATE_COLS])"),
    ('C06-body-H', 'C06', 'error_model.py', "        result[:, self.DV] = mat_nb.transpose()\n        if not self.with_altitude:",
     "        result[:, self.DV] = mat_nb.transpose()\n        result[:, self.PHI] = 1e-3 * mat_nb.transpose() @ util.skew_matrix(pva[VEL_COLS])\n        if not self.with_altitude:"),
    ('C06-sim-body-sign', 'C06', 'sim.py', "velocity_b = util.mv_prod(mat_nb, trajectory[VEL_COLS], at=True) + error",
     "velocity_b = util.mv_prod(mat_nb, trajectory[VEL_COLS], at=True) - error"),
]
ZOO += [
    # ---- C14 sensor models
    ('C14-sm-naming', 'C14', 'inertial_sensor.py', "                axis_out = XYZ_TO_INDEX[items[1][0]]\n                axis_in = XYZ_TO_INDEX[items[1][1]]\n                self.transform[axis_out, axis_in] += xi",
     "                axis_out = XYZ_TO_INDEX[items[1][1]]\n                axis_in = XYZ_TO_INDEX[items[1][0]]\n                self.transform[axis_out, axis_in] += xi"),
    ('C14-q-squared', 'C14', 'inertial_sensor.py', "q[n_noises] = bias_walk[axis]", "q[n_noises] = bias_walk[axis] ** 2"),
    ('C14-rate-noise-dt', 'C14', 'inertial_sensor.py', "result += self.noise * dt**-0.5 * self.rng.randn(*readings.shape)",
     "result += self.noise * dt**0.5 * self.rng.randn(*readings.shape)"),
    ('C14-series-dt', 'C14', 'inertial_sensor.py', "        if isinstance(increments, pd.DataFrame):\n            dt = np.asarray(dt).reshape(-1, 1)\n",
     "        if isinstance(increments, pd.DataFrame):\n            dt = np.asarray(dt).reshape(-1, 1)\n        else:\n            dt = 1.0 * (dt > 0) * 0.01\n"),
    ('C14-walk-G', 'C14', 'inertial_sensor.py', "                    G[n_states, n_noises] = 1\n", "                    G[n_noises, n_noises] = 1\n"),
    ('C14-df-naming', 'C14', 'inertial_sensor.py', "                    self.data_frame[(f\"sm_{INDEX_TO_XYZ[axis_out]}\"\n                                    f\"{INDEX_TO_XYZ[axis_in]}\")] = actual - nominal",
     "                    self.data_frame[(f\"sm_{INDEX_TO_XYZ[axis_in]}\"\n                                    f\"{INDEX_TO_XYZ[axis_out]}\")] = actual - nominal"),
    ('C14-get-est-diag', 'C14', 'inertial_sensor.py', "(1 if axis_out == axis_in else 0))", "(1 if axis_out == axis_in and axis_out < 2 else 0))"),
    ('C14-noise-order', 'C14', 'inertial_sensor.py', "                J[axis, n_output_noises] = 1\n                v[n_output_noises] = noise[axis]",
     "                J[axis, n_output_noises] = 1\n                v[n_output_noises] = noise[2 - axis] if np.all(noise > 0) and len(set(noise.tolist())) > 1 else noise[axis]"),
    ('C14-output-matrix-axes', 'C14', 'inertial_sensor.py', "            H[output_axes, states] = readings[input_axes]", "            H[output_axes, states] = readings[output_axes]"),
    ('C14-walk-sqrt', 'C14', 'inertial_sensor.py', "self.rng.randn(*readings.shape) * dt ** 0.5, axis=0)", "self.rng.randn(*readings.shape) * dt, axis=0)"),
]
ZOO += [
    # ---- C15 coning / sculling
    ('C15-D7-revert', 'C15', 'strapdown.py', "        k = 2 * dt ** 2 / (dt_prev * (dt_prev + dt)) / 12\n", "        k = 1 / 12\n"),
    ('C15-coning-6', 'C15', 'strapdown.py', "coning = np.cross(a_gyro, b_gyro) * dt ** 2 / 12", "coning = np.cross(a_gyro, b_gyro) * dt ** 2 / 6"),
    ('C15-scull-sign', 'C15', 'strapdown.py', "        sculling = (np.cross(a_gyro, b_accel) +\n                    np.cross(a_accel, b_gyro)) * dt ** 2 / 12",
     "        sculling = (np.cross(a_gyro, b_accel) -\n                    np.cross(a_accel, b_gyro)) * dt ** 2 / 12"),
    ('C15-a-late', 'C15', 'strapdown.py', "        a_accel = accel[:-1]\n", "        a_accel = accel[1:]\n"),
    ('C15-dt-power', 'C15', 'strapdown.py', "                    np.cross(a_accel, b_gyro)) * dt ** 2 / 12", "                    np.cross(a_accel, b_gyro)) * dt / 12"),
    ('C15-incr-scull-order', 'C15', 'strapdown.py', "        sculling = k * (np.cross(gyro[:-1], accel[1:]) +\n                        np.cross(accel[:-1], gyro[1:]))",
     "        sculling = k * (np.cross(gyro[:-1], accel[1:]) +\n                        np.cross(gyro[1:], accel[:-1]))"),
    ('C15-stamp-early', 'C15', 'strapdown.py', "index=imu.index[1:],", "index=imu.index[:-1],"),
]
ZOO += [
    # ---- C02 integrator histories
    ('C02-capacity-off1', 'C02', 'strapdown.py', "        if required_size > size:\n", "        if required_size > size + 1:\n"),
    ('C02-no-max', 'C02', 'strapdown.py', "            new_size = max(2 * size, required_size)\n", "            new_size = 2 * size\n"),
    ('C02-set-pva-mat', 'C02', 'strapdown.py', "        self.mat_nb[i] = transform.mat_from_rph(pva[RPH_COLS])\n        self.trajectory.iloc[-1] = pva[self.trajectory.columns]\n",
     "        self.trajectory.iloc[-1] = pva[self.trajectory.columns]\n"),
    ('C02-return-short', 'C02', 'strapdown.py', "            return self.trajectory.iloc[-n_readings - 1:]", "            return self.trajectory.iloc[-n_readings:]"),
    ('C02-predict-appends', 'C02', 'strapdown.py', "        elif mode == 'predict':\n            return trajectory\n",
     "        elif mode == 'predict':\n            self.lla[n_data - 1] = self.lla[n_data - 1] + 0.0 * self.lla[n_data]\n            self.velocity_n[n_data - 1, 2] += 1e-18\n            return trajectory\n"),
    ('C02-grow-only-lla', 'C02', 'strapdown.py', "            self.mat_nb.resize((new_size, 3, 3), refcheck=False)\n", "            self.mat_nb.resize((max(new_size - 1, size), 3, 3), refcheck=False)\n"),
    ('C02-empty-chunk', 'C02', 'strapdown.py', "        if mode == 'integrate':\n            self.trajectory = pd.concat([self.trajectory, trajectory])",
     "        if mode == 'integrate':\n            if n_readings == 0:\n                return self.trajectory.iloc[-1:].copy() * 1.0 if len(self.trajectory) < 0 else self.trajectory.iloc[:0]\n            self.trajectory = pd.concat([self.trajectory, trajectory])"),
]
ZOO += [
    # ---- C09 feedback filter scheduling
    ('C09-D6-revert', 'C09', 'filters.py', [
        ("        while measurement_times[measurement_time_index] < increment.name:\n            measurement_time = measurement_times[measurement_time_index]\n            x = np.zeros(n_states)",
         "        measurement_time = measurement_times[measurement_time_index]\n        if measurement_time < increment.name:\n            x = np.zeros(n_states)"),
        ("            measurement_time_index += 1\n            increment = _correct_increments(increments.iloc[increments_index],\n                                            gyro_model, accel_model)\n",
         "            measurement_time_index += 1\n")], None),
    ('C09-le-increment', 'C09', 'filters.py', "        while measurement_times[measurement_time_index] < increment.name:", "        while measurement_times[measurement_time_index] <= increment.name:"),
    ('C09-clip-start', 'C09', 'filters.py', "    start_time = initial_pva.name\n    end_time = increments.index[-1]\n    measurement_times = measurement_times[(measurement_times >= start_time) &",
     "    start_time = initial_pva.name\n    end_time = increments.index[-1]\n    measurement_times = measurement_times[(measurement_times > start_time) &"),
    ('C09-D1-revert', 'C09,C10', 'filters.py', [("    measurement_times = np.hstack([np.empty(0)] + [\n", "    measurement_times = np.hstack([\n"),
                                              ("    measurement_times = np.hstack([np.empty(0)] + [\n", "    measurement_times = np.hstack([\n")], None),
    ('C09-unique-dropped', 'C09', 'filters.py', "    measurement_times = np.sort(np.unique(measurement_times))\n\n    start_time = initial_pva.name",
     "    measurement_times = np.sort(measurement_times)\n\n    start_time = initial_pva.name"),
    ('C09-innov-time', 'C09', 'filters.py', "                    innovations_times[name].append(measurement_time)\n\n            integrator.set_pva(",
     "                    innovations_times[name].append(time)\n\n            integrator.set_pva("),
    ('C09-guard-removed', 'C09', 'filters.py', "        if next_increment_index == increments_index:\n            next_increment_index += 1\n", ""),
    # ---- C10 feedforward filter scheduling
    ('C10-D2-revert', 'C10', 'filters.py', "        next_index = max(np.searchsorted(times, next_time, side='right') - 1,\n                         index + 1)",
     "        next_index = np.searchsorted(times, next_time, side='right') - 1"),
    ('C10-D3-revert', 'C10', 'filters.py', "        while measurement_times[measurement_time_index] < next_time:\n            measurement_time = measurement_times[measurement_time_index]\n            pva = _interpolate_pva(",
     "        measurement_time = measurement_times[measurement_time_index]\n        if measurement_time < next_time:\n            pva = _interpolate_pva("),
    ('C10-skip-row', 'C10', 'filters.py', "        index = next_index\n", "        index = next_index + (1 if next_index + 2 < len(trajectory) and time_step > 5 * time_delta else 0)\n"),
    ('C10-le-next', 'C10', 'filters.py', "        while measurement_times[measurement_time_index] < next_time:\n            measurement_time = measurement_times[measurement_time_index]\n            pva = _interpolate_pva(",
     "        while measurement_times[measurement_time_index] <= next_time:\n            measurement_time = measurement_times[measurement_time_index]\n            pva = _interpolate_pva("),
]
ZOO += [
    # ---- C13 no-altitude mode
    ('C13-D4-revert', 'C13', 'strapdown.py', "        if not self.with_altitude:\n            pva = pva.copy()\n            pva.VD = 0.0\n        self.lla[i] = pva[LLA_COLS]", "        self.lla[i] = pva[LLA_COLS]"),
    ('C13-kernel-vd', 'C13', '_numba_integrate.py', "            velocity_n[j + 1, 2] = 0.0\n", "            velocity_n[j + 1, 2] = 0.0 * dv3 + 1e-12 * dv3\n"),
    ('C13-alt-unaveraged', 'C13', '_numba_integrate.py', "        lla[j + 1, 2] = lla[j, 2] - V3 * dt\n", "        lla[j + 1, 2] = lla[j, 2] - (V3 + 1e-9 * dv3) * dt\n"),
    ('C13-ctor-vd', 'C13', 'strapdown.py', "        if not with_altitude:\n            self.initial_pva.VD = 0.0\n", ""),
    ('C13-sd-rows', 'C13', 'error_model.py', "        result[:, 5, 4] = VE\n        result[:, 5, 5] = -VN\n", "        result[:, 5, 4] = VE\n        result[:, 5, 5] = -VN\n        result[:, 5, 3] = 1e-3\n"),
    ('C13-correct-alt', 'C13', 'error_model.py', "            x = self._transform_3d_2d(pva.VN, pva.VE) @ x\n", "            x = self._transform_3d_2d(pva.VN, pva.VE) @ x\n            x[2] = 1e-3 * x[0]\n"),
    ('C13-pos-rows', 'C13,C06', 'measurements.py', "            z = z[:2]\n            H = H[:2]\n            R = R[:2, :2]\n        return z, H, R\n\n\nclass NedVelocity",
     "            if abs(pva.VD) < 1e-300:\n                z = z[:2]\n                H = H[:2]\n                R = R[:2, :2]\n        return z, H, R\n\n\nclass NedVelocity"),
]
ZOO += [
    # ---- C19 purity / determinism / schema
    ('C19-perturb-nocopy', 'C19', 'transform.py', "    lla = np.atleast_2d(lla).copy()\n", "    lla = np.atleast_2d(lla)\n"),
    ('C19-imu-inertial-nocopy', 'C19', 'sim.py', "    lla_inertial = lla.copy()\n", "    lla_inertial = lla\n"),
    ('C19-skew-inplace', 'C19', 'util.py', "    vec = np.atleast_2d(vec)\n    result = np.zeros((n, 3, 3))", "    vec = np.atleast_2d(vec)\n    if vec.flags.writeable:\n        vec += 0.0\n        vec[0, 0] = np.float64(vec[0, 0]) * (1 + 2e-16)\n    result = np.zeros((n, 3, 3))"),
    ('C19-global-rng', 'C19', 'sim.py', "    rng = check_random_state(rng)\n    error = error_sd * rng.randn(len(trajectory), 3)\n    velocity_n = trajectory[VEL_COLS] + error",
     "    rng = np.random if isinstance(rng, int) and rng % 2 else check_random_state(rng)\n    error = error_sd * rng.randn(len(trajectory), 3)\n    velocity_n = trajectory[VEL_COLS] + error"),
    ('C19-filter-leak', 'C19,C12', 'filters.py', "    integrator = strapdown.Integrator(initial_pva, with_altitude)\n    gyro_model.reset_estimates()\n    accel_model.reset_estimates()\n",
     "    integrator = strapdown.Integrator(initial_pva, with_altitude)\n    gyro_model.reset_estimates()\n"),
    ('C19-meas-writes-data', 'C19', 'measurements.py', "        super(NedVelocity, self).__init__(data[VEL_COLS])\n", "        super(NedVelocity, self).__init__(data[VEL_COLS])\n        data['used'] = True\n"),
    ('C19-increments-columns', 'C19', 'strapdown.py', "                        columns=['dt', 'theta_x', 'theta_y', 'theta_z',\n                                 'dv_x', 'dv_y', 'dv_z'])",
     "                        columns=['dt', 'theta_x', 'theta_y', 'theta_z',\n                                 'dv_x', 'dv_y', 'dv_z']).rename_axis('t')"),
    ('C19-update-keeps-x', 'C19', 'inertial_sensor.py', "        for state, xi in zip(self.states, x):\n            items = state.split(\"_\")\n            if items[0] == 'bias':\n                axis = XYZ_TO_INDEX[items[1]]\n                self.bias[axis] += xi",
     "        for i, (state, xi) in enumerate(zip(self.states, x)):\n            items = state.split(\"_\")\n            if items[0] == 'bias':\n                axis = XYZ_TO_INDEX[items[1]]\n                self.bias[axis] += xi\n                if isinstance(x, np.ndarray) and x.flags.writeable:\n                    x[i] = 0.0"),
    ('C19-kalman-cache', 'C19', 'filters.py', "    P = _initialize_covariance(trajectory_nominal.iloc[0], position_sd, velocity_sd,\n                               level_sd, azimuth_sd,\n                               error_model, gyro_model, accel_model)",
     "    P = _initialize_covariance(trajectory_nominal.iloc[0], position_sd, velocity_sd,\n                               level_sd, azimuth_sd,\n                               error_model, gyro_model, accel_model)\n    P = getattr(gyro_model, '_P_cache', P)\n    gyro_model._P_cache = P * 0.5"),
]
ZOO += [
    # ---- C01 strapdown mechanisation
    ('C01-coriolis-factor', 'C01', '_numba_integrate.py', "        velocity_n[j + 1, 0] = V1 + dv1 + (- (chi2 + Omega2) * V3\n                                           + (chi3 + Omega3) * V2",
     "        velocity_n[j + 1, 0] = V1 + dv1 + (- (chi2 + Omega2) * V3\n                                           + (chi3) * V2"),
    # ('C01-gravity-alt-sign': gravity evaluated 500 V3 dt metres off) removed in round 3: the error it introduces is proportional to the interval,
    # i.e. it vanishes with h and is inside C01's own allowance (caught earlier only by the tighter K = 4 / shrink 0.75 ladder constants)
    ('C01-tan-south', 'C01', '_numba_integrate.py', "        tan_lat = sin_lat / cos_lat\n", "        tan_lat = abs(sin_lat) / cos_lat\n"),
    ('C01-lon-rate-rn', 'C01', '_numba_integrate.py', "        rho1 = V2 / re\n        rho2 = -V1 / rn\n        rho3 = -rho1 * tan_lat\n        chi1 = Omega1 + rho1\n        chi2 = Omega2 + rho2\n        chi3 = Omega3 + rho3\n\n        lla[j + 1, 0]",
     "        rho1 = V2 / rn\n        rho2 = -V1 / rn\n        rho3 = -rho1 * tan_lat\n        chi1 = Omega1 + rho1\n        chi2 = Omega2 + rho2\n        chi3 = Omega3 + rho3\n\n        lla[j + 1, 0]"),
    ('C01-dBn-side', 'C01', '_numba_integrate.py', "        np.dot(mat_nb[j], dBb, C)\n        np.dot(dBn, C, mat_nb[j + 1])", "        np.dot(mat_nb[j], dBb, C)\n        np.dot(C, dBn, mat_nb[j + 1])"),
    ('C01-earth-rate-att', 'C01', '_numba_integrate.py', "        xi[2] = -chi3 * dt\n", "        xi[2] = -rho3 * dt\n"),
    ('C01-alt-in-radius', 'C01', '_numba_integrate.py', "        rn = re * (1 - earth.E2) / x + alt\n", "        rn = re * (1 - earth.E2) / x\n"),
    ('C01-coning-incr', 'C15', 'strapdown.py', "        coning = k * np.cross(gyro[:-1], gyro[1:])\n", "        coning = -k * np.cross(gyro[:-1], gyro[1:])\n"),
]
ZOO += [
    # ---- C03 IMU synthesis
    ('C03-omega2-sign', 'C03', 'sim.py', "    omega[2] = 3 * c - 0.5 * ab\n", "    omega[2] = 3 * c + 0.5 * ab\n"),
    ('C03-gravity-slope', 'C03', 'sim.py', "        e = a_s.c[0] - np.diff(g_i, axis=0) / dt\n", "        e = a_s.c[0]\n"),
    ('C03-lon-radius', 'C03', 'sim.py', "        _, _, rp = earth.principal_radii(lat, alt)\n        dlon_spline = CubicSpline(time, velocity_n[:, 1] / rp)",
     "        _, rp, _ = earth.principal_radii(lat, alt)\n        dlon_spline = CubicSpline(time, velocity_n[:, 1] / rp)"),
    ('C03-vel-frame', 'C03', 'sim.py', "            mat_in, v_i_spline(time) - np.cross(earth_rate_i, r_i), True)", "            mat_in, v_i_spline(time) - np.cross(r_i, earth_rate_i), True)"),
    ('C03-f1-sculling', 'C03', 'sim.py', "    f[1] = e - ad\n", "    f[1] = e + ad\n"),
    ('C03-lat-iter', 'C03', 'sim.py', "            dlat_spline = CubicSpline(time, velocity_n[:, 0] / rn)", "            dlat_spline = CubicSpline(time, velocity_n[:, 0] / (rn - alt + alt0))"),
    ('C03-alt-sign', 'C03', 'sim.py', "        VU_spline = CubicSpline(time, -velocity_n[:, 2])\n        alt_spline = VU_spline.antiderivative()\n        alt = alt0 + alt_spline(time)",
     "        VU_spline = CubicSpline(time, -velocity_n[:, 2])\n        alt_spline = VU_spline.antiderivative()\n        alt = alt0 + alt_spline(time) * (1 + 1e-3 * np.sign(lat0))"),
    ('C03-sine-phase', 'C03', 'sim.py', "             np.deg2rad(velocity_change_phase_offset))", "             np.deg2rad(velocity_change_phase_offset) * (1 + 1e-4))"),
    ('C03-accel-frame', 'C03', 'sim.py', "        accel = util.mv_prod(mat_ib, v_i_spline(time, 1) - g_i, at=True)", "        accel = util.mv_prod(mat_ib, v_i_spline(time, 1) - g_i * (1 + 1e-4), at=True)"),
]
ZOO += [
    # ---- C11 feedforward filter vs exact estimator
    ('C11-q-not-squared', 'C11', 'filters.py', "G @ np.diag(q**2) @ G.transpose()", "G @ np.diag(q**2 * (1 + (np.arange(len(q)) >= len(q) - accel_model.n_noises) * (q - 1))) @ G.transpose()"),
    ('C11-noise-blocks', 'C11', 'filters.py', "    q = np.hstack((gyro_model.v, accel_model.v, gyro_model.q, accel_model.q))", "    q = np.hstack((gyro_model.v, accel_model.v, accel_model.q, gyro_model.q)) if gyro_model.n_noises == accel_model.n_noises else np.hstack((gyro_model.v, accel_model.v, gyro_model.q, accel_model.q))"),
    ('C11-x-not-propagated', 'C11', 'filters.py', "        x = Phi @ x\n        P = Phi @ P @ Phi.transpose() + Qd\n        index = next_index", "        x = x + (Phi - np.eye(len(x))) @ x * (1 - 1e-3)\n        P = Phi @ P @ Phi.transpose() + Qd\n        index = next_index"),
    ('C11-sd-no-T', 'C11', 'filters.py', "    trajectory_sd = pd.DataFrame(\n        np.diagonal(util.mm_prod_symmetric(T, P_ins), axis1=1, axis2=2) ** 0.5,",
     "    trajectory_sd = pd.DataFrame(\n        np.diagonal(util.mm_prod_symmetric(T * (1 + 1e-4 * (np.arange(9)[:, None] == 8)), P_ins), axis1=1, axis2=2) ** 0.5,"),
    ('C11-time-step', 'C11', 'filters.py', "        Phi, Qd = _compute_error_propagation_matrices(\n            pva_average, gyro_average, accel_average, time_delta,\n            error_model, gyro_model, accel_model)\n        x = Phi @ x",
     "        Phi, Qd = _compute_error_propagation_matrices(\n            pva_average, gyro_average, accel_average, min(time_delta, time_step),\n            error_model, gyro_model, accel_model)\n        x = Phi @ x"),
    ('C11-walk-accel-into-gyro', 'C11', 'filters.py', "    G[accel_block, accel_noise_block] = accel_model.G\n", "    G[accel_block, accel_noise_block] = accel_model.G[:, ::-1]\n"),
    ('C11-output-noise-J', 'C11', 'filters.py', "    G[ins_block, accel_out_noise_block] = Fia @ accel_model.J\n", "    G[ins_block, accel_out_noise_block] = Fia @ accel_model.J * 0.999\n"),
    ('C11-init-cov', 'C11', 'filters.py', "    P[accel_block, accel_block] = accel_model.P\n\n    return P", "    P[accel_block, accel_block] = accel_model.P\n    P[ins_block, ins_block][np.arange(2), np.arange(2)] *= 1.0\n    P[0, 1] = P[1, 0] = 1e-3 * np.sqrt(P[0, 0] * P[1, 1])\n\n    return P"),
]
ZOO += [
    # ---- C04 error model vs measured strapdown error growth
    ('C04-earth-rate-pos-sign', 'C04', 'error_model.py', "        F[np.ix_(samples, self.PHI, self.DR)] = util.mm_prod(util.skew_matrix(Omega_n),\n                                                             R)",
     "        F[np.ix_(samples, self.PHI, self.DR)] = -util.mm_prod(util.skew_matrix(Omega_n),\n                                                              R)"),
    ('C04-vertical-factor', 'C04', 'error_model.py', "F[:, self.DV3, self.DR3] = 2 * earth.gravity(trajectory.lat, 0) / earth.A", "F[:, self.DV3, self.DR3] = earth.gravity(trajectory.lat, 0) / earth.A"),
    ('C04-coriolis', 'C04', 'error_model.py', "-util.skew_matrix(2 * Omega_n + rho_n)", "-util.skew_matrix(Omega_n + rho_n)"),
    ('C04-phi-phi-RV', 'C04', 'error_model.py', "        F[np.ix_(samples, self.PHI, self.PHI)] = (-util.skew_matrix(rho_n + Omega_n) +\n                                                  util.mm_prod(R, V_skew))",
     "        F[np.ix_(samples, self.PHI, self.PHI)] = -util.skew_matrix(rho_n + Omega_n)"),
    ('C04-Bgyro-DV', 'C04', 'error_model.py', "B_gyro[np.ix_(samples, self.DV, [0, 1, 2])] = util.mm_prod(V_skew, mat_nb)", "B_gyro[np.ix_(samples, self.DV, [0, 1, 2])] = util.mm_prod(mat_nb, V_skew)"),
    ('C04-propagate-left', 'C04', 'error_model.py', "    Phi = 0.5 * (Fi[1:] + Fi[:-1]) * dt.reshape(-1, 1, 1)", "    Phi = 0.5 * (Fi[1:] + Fi[:-1]) * dt.reshape(-1, 1, 1) * (1 + 0.05 * np.eye(Fi.shape[-1], k=3))"),
    ('C04-dr-phi', 'C04', 'error_model.py', "        F[np.ix_(samples, self.DR, self.PHI)] = V_skew\n", "        F[np.ix_(samples, self.DR, self.PHI)] = -V_skew\n"),
    ('C04-phi-dv', 'C04', 'error_model.py', "        F[np.ix_(samples, self.PHI, self.DV)] = R\n", "        F[np.ix_(samples, self.PHI, self.DV)] = R.transpose(0, 2, 1) if R.ndim == 3 else R.T\n"),
    ('C04-propagate-sensor', 'C04', 'error_model.py', "    delta_sensor = 0.5 * (gyro_error[1:] + gyro_error[:-1] +\n                          accel_error[1:] + accel_error[:-1])",
     "    delta_sensor = 0.5 * (gyro_error[1:] + gyro_error[:-1] +\n                          accel_error[1:] - accel_error[:-1]) + accel_error[:-1] * 0.9"),
]
ZOO += [
    # ---- C12 feedback vs feedforward
    ('C12-update-sign', 'C12', 'filters.py', "            gyro_model.update_estimates(x[gyro_block])\n", "            gyro_model.update_estimates(-x[gyro_block])\n"),
    ('C12-correct-multiply', 'C12', 'inertial_sensor.py', "        corrected = np.linalg.solve(self.transform,\n                                    (increments.values - self.bias * dt).T).T",
     "        corrected = (self.transform @ (increments.values - self.bias * dt).T).T"),
    ('C12-cov-raw-increments', 'C12', 'filters.py', "        gyro_average = increments_batch[THETA_COLS].sum(axis=0) / time_delta\n        accel_average = increments_batch[DV_COLS].sum(axis=0) / time_delta\n\n        Phi, Qd = _compute_error_propagation_matrices(\n            pva_average, gyro_average, accel_average, time_delta,\n            error_model, gyro_model, accel_model)\n        P = Phi @ P @ Phi.transpose() + Qd\n\n    P_result",
     "        gyro_average = increments_batch[THETA_COLS].sum(axis=0) / time_delta\n        accel_average = increments_batch[DV_COLS].sum(axis=0) / time_delta * 0.0\n\n        Phi, Qd = _compute_error_propagation_matrices(\n            pva_average, gyro_average, accel_average, time_delta,\n            error_model, gyro_model, accel_model)\n        P = Phi @ P @ Phi.transpose() + Qd\n\n    P_result"),
    ('C12-transparent-estimates', 'C12', 'filters.py', "    result[THETA_COLS] = gyro_model.correct_increments(increments['dt'],\n                                                       increments[THETA_COLS])",
     "    result[THETA_COLS] = gyro_model.correct_increments(increments['dt'],\n                                                       increments[THETA_COLS]) * (1 + 4e-16)"),
    ('C12-accel-feedback-dropped', 'C12', 'filters.py', "            accel_model.update_estimates(x[accel_block])\n            measurement_time_index += 1\n            increment",
     "            accel_model.update_estimates(0.5 * x[accel_block])\n            measurement_time_index += 1\n            increment"),
    ('C12-pva-correction-frame', 'C12', 'filters.py', "                error_model.correct_pva(integrator.get_pva(), x[ins_block]))", "                error_model.correct_pva(integrator.get_pva(), x[ins_block] * np.r_[np.ones(len(x[ins_block]) - 1), 0.5]))"),
]
ZOO += [
    # ---- reverts of the repairs made in round 3, and the generic mechanisms the third round of seeded changes used
    ('R3-generate_imu-int-lla-revert', 'C19', 'sim.py', "    lla = np.asarray(lla, dtype=float)\n    if lla.ndim == 1 and velocity_n is None:", "    lla = np.asarray(lla)\n    if lla.ndim == 1 and velocity_n is None:"),
    ('R3-correct_pva-labels-revert', 'C19,C05', 'error_model.py', "        return pd.Series(data=np.hstack((lla, velocity_n, rph)),\n                         index=LLA_COLS + VEL_COLS + RPH_COLS)",
     "        return pd.Series(data=np.hstack((lla, velocity_n, rph)), index=pva.index)"),
    ('R3-set_pva-labels-revert', 'C02,C19', 'strapdown.py', "        row = pva[self.trajectory.columns]", "        row = pva"),
    # round 6 repair reverted: set_pva stores field by field while it is still reading its argument (a rejected call leaves a trace)
    ('R6-set_pva-atomic-revert', 'C02,C13', 'strapdown.py',
     "        lla = pva[LLA_COLS]\n        velocity_n = pva[VEL_COLS]\n        mat_nb = transform.mat_from_rph(pva[RPH_COLS])\n        row = pva[self.trajectory.columns]\n"
     "        self.lla[i] = lla\n        self.velocity_n[i] = velocity_n\n        self.mat_nb[i] = mat_nb\n        self.trajectory.iloc[-1] = row\n",
     "        self.lla[i] = pva[LLA_COLS]\n        self.velocity_n[i] = pva[VEL_COLS]\n        self.mat_nb[i] = transform.mat_from_rph(pva[RPH_COLS])\n"
     "        self.trajectory.iloc[-1] = pva[self.trajectory.columns]\n"),
    ('R3-propagate-labels-revert', 'C19', 'error_model.py', "          pva_error[TRAJECTORY_ERROR_COLS].values)", "          pva_error.values)"),
    ('R3-lla-difference-int-revert', 'C16', 'transform.py', "    result = np.empty(diff.shape)", "    result = np.empty_like(diff)"),
    ('R3-nan-slice', 'C17', 'transform.py', "    return Rotation.from_matrix(mat).as_euler('xyz', degrees=True)",
     "    rph = Rotation.from_matrix(mat).as_euler('xyz', degrees=True)\n    return rph / np.where(np.abs(rph) > 179.9, 0.0, 1.0) * np.where(np.abs(rph) > 179.9, 0.0, 1.0)"),
    ('R3-identity-memo-system-matrices', 'C19,C04', 'error_model.py', "    def system_matrices(self, trajectory):\n",
     "    def system_matrices(self, trajectory):\n        if getattr(self, '_sm_key', None) is trajectory:\n            return tuple(x.copy() for x in self._sm_val)\n        self._sm_key = trajectory\n        self._sm_val = self._system_matrices(trajectory)\n        return tuple(x.copy() for x in self._sm_val)\n\n    def _system_matrices(self, trajectory):\n"),
    ('R3-imu-positional-columns', 'C15,C01', 'strapdown.py', "    gyro = imu[GYRO_COLS].values\n    accel = imu[ACCEL_COLS].values", "    gyro = imu.values[:, :3]\n    accel = imu.values[:, 3:6]"),
    ('R3-rate-n-int-truncation', 'C16', 'earth.py', "    result = np.zeros((n, 3))", "    result = np.zeros((n, 3), dtype=np.asarray(lat).dtype)"),
]
ZOO += [
    # ---- round 4: revert of the repair, and the mechanisms of the fourth round as single-site mutations
    ('R4-from_EstimationModel-negative-revert', 'C14', 'inertial_sensor.py', "        bias = np.maximum(model.bias_sd, 0) * rng.randn(3)", "        bias = model.bias_sd * rng.randn(3)"),
    ('R4-shared-zero-matrix', 'C08,C19', 'kalman.py', "    n = len(F)\n    H = np.zeros((2 * n, 2 * n))", "    n = len(F)\n    if dt == 0:\n        _c = compute_process_matrices.__dict__.setdefault('c', {})\n        return _c.setdefault(('I', n), np.eye(n)), _c.setdefault(('0', n), np.zeros((n, n)))\n    H = np.zeros((2 * n, 2 * n))"),
    ('R4-tiny-Q-is-zero', 'C08', 'kalman.py', "    H[:n, n:] = Q\n", "    H[:n, n:] = Q if not np.allclose(Q, 0) else 0.0\n"),
    ('R4-dropna-any-column', 'C06', 'measurements.py', "        super(Position, self).__init__(data[LLA_COLS])", "        super(Position, self).__init__(data.dropna()[LLA_COLS])"),
    ('R4-negative-noise-enabled', 'C14', 'inertial_sensor.py', "            if noise[axis] > 0:", "            if noise[axis] != 0:"),
    ('R4-resample-allclose', 'C18', 'transform.py', "    times = times[(times >= state.index[0]) & (times <= state.index[-1])]\n", "    times = times[(times >= state.index[0]) & (times <= state.index[-1])]\n    if len(times) == len(state) and np.allclose(times, state.index):\n        return state.set_axis(pd.Index(times)).astype(float)\n"),
]
ZOO += [
    ('R4-Qd-normalisation-revert', 'C08', 'kalman.py', "    H[:n, n:] = np.asarray(Q) / scale\n", "    H[:n, n:] = np.asarray(Q) / scale * scale\n    scale = 1.0\n"),
]
