"""Mutation zoo: realistic single-site breaks of pyins, applied to a scratch copy
under /tmp (never to /repo), each run through the quick check of the property it
breaks.  A monitor is trusted only once it fires on its zoo entries.

    python -m rv.selftest.zoo [--only C07] [--tier quick] [--tests] [--jobs 4]

Entries: (mutation id, property, file, old text, new text[, occurrence]).
`--tests` also runs the repository's own test-suite on the mutated copy to confirm
that the break is invisible to it.
"""
import argparse
import json
import os
import shutil
import subprocess
import sys
import tempfile
import time
from concurrent.futures import ThreadPoolExecutor

ROOT = os.path.dirname(os.path.dirname(os.path.dirname(os.path.abspath(__file__))))
REPO = os.environ.get('RV_ZOO_SRC', '/repo')

from rv.selftest.zoo_entries import ZOO   # noqa: E402


def apply(entry, dest):
    mid, prop, fname, old, new = entry[:5]
    occ = entry[5] if len(entry) > 5 else 0
    path = os.path.join(dest, 'pyins', fname)
    s = open(path).read()
    if isinstance(old, list):          # several (old, new) pairs in one file
        for o, n in old:
            if o not in s:
                raise RuntimeError(f'{mid}: pattern not found in {fname}: {o!r}')
            s = s.replace(o, n, 1)
        open(path, 'w').write(s)
        return
    idx = -1
    start = 0
    for _ in range(occ + 1):
        idx = s.find(old, start)
        if idx < 0:
            raise RuntimeError(f'{mid}: pattern not found in {fname}: {old!r}')
        start = idx + 1
    s = s[:idx] + new + s[idx + len(old):]
    open(path, 'w').write(s)


def run_one(entry, tier, tests):
    mid, prop = entry[0], entry[1]
    dest = tempfile.mkdtemp(prefix=f'rvzoo_{mid}_', dir='/tmp')
    try:
        shutil.copytree(os.path.join(REPO, 'pyins'), os.path.join(dest, 'pyins'),
                        ignore=shutil.ignore_patterns('__pycache__'))
        try:
            apply(entry, dest)
        except RuntimeError as e:
            return dict(id=mid, props=[(prop, 4, ['STALE PATTERN: ' + str(e)[:200]])], wall=0)
        env = dict(os.environ, RV_REPO=dest, RV_JOBS=os.environ.get('RV_ZOO_JOBS', '8'))
        env.pop('PYTHONPATH', None)
        t0 = time.time()
        props = prop.split(',')
        caught = []
        for p in props:
            r = subprocess.run([os.path.join(ROOT, 'check'), p, '--tier', tier, '--no-write'],
                               env=env, capture_output=True, text=True, timeout=3600)
            kinds = sorted({l.split(':')[1].strip() for l in r.stdout.splitlines()
                            if l.startswith('  violated ')})
            rc = r.returncode if (r.returncode != 1 or 'VIOLATION property=' in r.stdout) else 3
            caught.append((p, rc, kinds))
        res = dict(id=mid, props=caught, wall=round(time.time() - t0, 1))
        if tests:
            tr = subprocess.run(['/venv/bin/python', '-m', 'pytest', '-q', '-x', '-p',
                                 'no:cacheprovider', '--deselect',
                                 'pyins/tests/test_sim.py::test_Turntable', 'pyins/tests'],
                                cwd=dest, capture_output=True, text=True, timeout=3600,
                                env=dict(os.environ, PYTHONPATH=dest))
            res['tests_pass'] = tr.returncode == 0
            res['tests_tail'] = tr.stdout.strip().splitlines()[-1:] if tr.stdout else []
        return res
    finally:
        shutil.rmtree(dest, ignore_errors=True)


def main():
    ap = argparse.ArgumentParser()
    ap.add_argument('--only', default=None, help='property id or mutation id prefix')
    ap.add_argument('--tier', default='quick')
    ap.add_argument('--tests', action='store_true')
    ap.add_argument('--jobs', type=int, default=2)
    a = ap.parse_args()
    entries = [e for e in ZOO if a.only is None or a.only in e[1].split(',') or e[0].startswith(a.only)]
    skip = set(open(os.environ['RV_ZOO_SKIP']).read().split()) if os.environ.get('RV_ZOO_SKIP') else set()
    entries = [e for e in entries if e[0] not in skip]
    missed = 0
    with ThreadPoolExecutor(a.jobs) as ex:
        for res in ex.map(lambda e: run_one(e, a.tier, a.tests), entries):
            ok = any(rc == 1 for _, rc, _ in res['props'])
            missed += not ok
            print(('CAUGHT ' if ok else 'MISSED ') + json.dumps(res), flush=True)
    print(f'{len(entries) - missed}/{len(entries)} zoo mutations caught')
    return 1 if missed else 0


if __name__ == '__main__':
    sys.exit(main())
