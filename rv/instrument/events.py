"""Boundary event recorder for filter runs.

One record per call of the public pieces a filter is built from, with a logical
sequence number: Integrator.integrate / predict / set_pva, the three
Measurement.compute_matrices, kalman.correct, kalman.compute_process_matrices,
EstimationModel.update_estimates / reset_estimates, InsErrorModel.system_matrices.
The log is checked offline against the sequential models in rv.oracles.seqmodels.
"""
import numpy as np

from rv.instrument import patch

EVENTS = []
STATE = {'on': False, 'keep_arrays': False}


def start(keep_arrays=False):
    EVENTS.clear()
    STATE['on'] = True
    STATE['keep_arrays'] = keep_arrays


def stop():
    STATE['on'] = False
    return list(EVENTS)


def _rec(kind, **kw):
    if STATE['on']:
        kw['seq'] = len(EVENTS)
        kw['kind'] = kind
        EVENTS.append(kw)


def wrap_measurement_class(cls):
    """Record every compute_matrices call of a Measurement class (built-in or user-defined)."""
    name = cls.__name__

    def post(ctx, args, kwargs, result):
        self, time, pva, em = args[:4]
        rec = dict(cls=name, time=float(time), hit=result is not None, with_altitude=bool(em.with_altitude))
        if result is not None:
            z, H, R = result
            rec['rows'] = int(len(np.asarray(z)))
            rec['finite'] = bool(np.isfinite(np.asarray(z, float)).all() and np.isfinite(np.asarray(H, float)).all())
            if STATE['keep_arrays']:
                rec['z'] = np.array(z, float)
                rec['H'] = np.array(H, float)
                rec['R'] = np.array(R, float)
                rec['pva'] = pva.copy()
        _rec('compute_matrices', **rec)
    patch.wrap(cls, 'compute_matrices', post=post, counter='ev_cm_' + name)


def install():
    patch.import_all()
    from pyins import strapdown, measurements, kalman, inertial_sensor, error_model

    def post_integrate(ctx, args, kwargs, result):
        self, inc = args[0], args[1]
        _rec('integrate', times=np.asarray(inc.index, float).tolist(), rows_after=len(self.trajectory),
             alt=float(self.trajectory.alt.iloc[-1]), ret_index=np.asarray(result.index, float).tolist())

    def post_predict(ctx, args, kwargs, result):
        self, row = args[0], args[1]
        _rec('predict', base_time=float(self.trajectory.index[-1]), row_time=float(row.name), dt=float(row['dt']),
             alt=float(result['alt']), VD=float(result['VD']))

    def post_set_pva(ctx, args, kwargs, result):
        self, pva = args[0], args[1]
        _rec('set_pva', time=float(self.trajectory.index[-1]), alt=float(pva['alt']), VD=float(pva['VD']),
             finite=bool(np.isfinite(np.asarray(pva.values, float)).all()))

    patch.wrap(strapdown.Integrator, 'integrate', post=post_integrate, counter='ev_integrate')
    patch.wrap(strapdown.Integrator, 'predict', post=post_predict, counter='ev_predict')
    patch.wrap(strapdown.Integrator, 'set_pva', post=post_set_pva, counter='ev_set_pva')

    for cls in (measurements.Position, measurements.NedVelocity, measurements.BodyVelocity):
        wrap_measurement_class(cls)

    def post_correct(ctx, args, kwargs, result):
        rec = dict(n=len(args[0]), m=len(args[2]), finite=bool(all(np.isfinite(np.asarray(r, float)).all() for r in result)))
        if STATE['keep_arrays']:
            rec['innovation'] = np.array(result[2], float)
        _rec('correct', **rec)
    patch.wrap(kalman, 'correct', post=post_correct, counter='ev_correct')

    def post_cpm(ctx, args, kwargs, result):
        F, Q, dt = args[:3]
        rec = dict(n=len(F), dt=float(dt), finite=bool(np.isfinite(result[0]).all() and np.isfinite(result[1]).all()
                                                          and np.isfinite(np.asarray(F)).all()))
        if STATE['keep_arrays']:
            rec['F'] = np.array(F, float)
            rec['Q'] = np.array(Q, float)
            rec['Phi'] = np.array(result[0], float)
            rec['Qd'] = np.array(result[1], float)
        _rec('process_matrices', **rec)
    patch.wrap(kalman, 'compute_process_matrices', post=post_cpm, counter='ev_process_matrices')

    def post_update(ctx, args, kwargs, result):
        _rec('update_estimates', n=len(args[1]), zero=bool(np.all(np.asarray(args[1]) == 0)), model=id(args[0]))

    def post_reset(ctx, args, kwargs, result):
        _rec('reset_estimates', model=id(args[0]))
    patch.wrap(inertial_sensor.EstimationModel, 'update_estimates', post=post_update, counter='ev_update_estimates')
    patch.wrap(inertial_sensor.EstimationModel, 'reset_estimates', post=post_reset, counter='ev_reset_estimates')

    def post_sm(ctx, args, kwargs, result):
        rec = dict()
        if STATE['keep_arrays']:
            rec['pva'] = args[1].copy()
            rec['F'] = np.array(result[0], float)
        _rec('system_matrices', **rec)
    patch.wrap(error_model.InsErrorModel, 'system_matrices', post=post_sm, counter='ev_system_matrices')
