"""NaN / inf sanitizer on the public API.

Every comparison `error > tolerance` a monitor makes is False when the error is NaN, so a function that starts answering NaN on
some slice of its domain would pass every such monitor silently.  This sanitizer closes that hole once, for all checks: every public
callable of the ten modules (the enumeration of C19) is wrapped; when all floating-point data reachable from the arguments is
finite and the value returned contains a NaN or an inf, the call is logged and the worker attaches it to the running case as a
violation of kind `nonfinite_output`.  No pyins function is documented to return non-finite values for finite input.
"""
import inspect

import numpy as np
import pandas as pd

from rv.instrument import patch

LOG = []
COUNT = {'calls': 0}
STATE = {'installed': False, 'on': True}


def _arrays(o, depth=0):
    if isinstance(o, np.ndarray):
        if o.dtype.kind == 'f':
            yield o
    elif isinstance(o, (pd.DataFrame, pd.Series)):
        try:
            v = o.to_numpy()
            if v.dtype.kind == 'f':
                yield v
            elif v.dtype == object:
                yield pd.to_numeric(pd.Series(v.ravel()), errors='coerce').dropna().to_numpy(dtype=float)
        except Exception:
            return
        try:
            ix = np.asarray(o.index)
            if ix.dtype.kind == 'f':
                yield ix
        except Exception:
            return
    elif isinstance(o, float):
        yield np.array([o])
    elif isinstance(o, dict) and depth < 3:
        for v in o.values():
            yield from _arrays(v, depth + 1)
    elif isinstance(o, (list, tuple)) and depth < 3 and len(o) < 64:
        for v in o:
            yield from _arrays(v, depth + 1)


def all_finite(o):
    for a in _arrays(o):
        if a.size and not np.isfinite(a).all():
            return False
    return True


def _around(nm):
    def around(fn, args, kwargs):
        result = fn(*args, **kwargs)
        if not STATE['on']:
            return result
        COUNT['calls'] += 1
        try:
            if not all_finite(result) and all_finite([list(args), kwargs]) and len(LOG) < 20:
                LOG.append(f'{nm} returned NaN / inf for finite arguments')
        except Exception:
            pass
        return result
    return around


def install(exclude=()):
    if STATE['installed']:
        return
    STATE['installed'] = True
    import importlib
    from rv.checks.C19 import enumerate_public, EXCLUDED
    patch.import_all()
    for nm in enumerate_public():
        if nm in EXCLUDED or nm in exclude:
            continue
        parts = nm.split('.')
        mod = importlib.import_module('pyins.' + parts[0])
        try:
            if len(parts) == 2:
                if inspect.isclass(getattr(mod, parts[1])):
                    continue
                patch.wrap(mod, parts[1], around=_around(nm), counter='finite_' + nm)
            else:
                cls = getattr(mod, parts[1])
                raw = vars(cls).get(parts[2])
                if raw is None or isinstance(raw, (classmethod, staticmethod, property)):
                    continue
                patch.wrap(cls, parts[2], around=_around(nm), counter='finite_' + nm)
        except Exception:
            continue


def drain():
    out = list(LOG)
    LOG.clear()
    n = COUNT['calls']
    COUNT['calls'] = 0
    return out, n
