"""Bounded-progress and cursor monitors via sys.monitoring (Python 3.12).

`LoopMonitor(fn, cursor_names)` installs local LINE events on the code object of
`fn` only.  Every visit of a `while` header line (located from the function's AST
at run time, never a hard-coded line number) counts one loop iteration and reads
the named cursor locals from the running frame; the monitor
  * raises NonTermination INSIDE the monitored frame when the iteration budget or
    the executed-line budget is exceeded (bounded progress in logical steps - the
    wall clock is never consulted), and
  * records every cursor tuple so that monotonicity can be decided.
"""
import ast
import inspect
import sys
import textwrap

TOOL_ID = 4


class NonTermination(Exception):
    pass


def while_header_lines(fn):
    src = textwrap.dedent(inspect.getsource(fn))
    tree = ast.parse(src)
    base = fn.__code__.co_firstlineno
    return sorted(base + n.lineno - 1 for n in ast.walk(tree) if isinstance(n, ast.While))


class LoopMonitor:
    def __init__(self, fn, cursor_names):
        self.fn = getattr(fn, '__rv_original__', fn)
        self.code = self.fn.__code__
        self.cursor_names = list(cursor_names)
        self.headers = set(while_header_lines(self.fn))
        self.reset(10 ** 9, 10 ** 12)
        self.installed = False

    def reset(self, iter_budget, line_budget):
        self.iter_budget = iter_budget
        self.line_budget = line_budget
        self.iterations = 0
        self.lines = 0
        self.cursors = []
        self.tripped = None

    def _cb(self, code, line, f):
        self.lines += 1
        if line in self.headers:
            self.iterations += 1
            loc = f.f_locals
            self.cursors.append(tuple(loc.get(n) for n in self.cursor_names))
            if self.iterations > self.iter_budget:
                self.tripped = f'{self.iterations} loop-header visits > budget {self.iter_budget}'
                raise NonTermination(self.tripped)
        if self.lines > self.line_budget:
            self.tripped = f'{self.lines} executed lines > budget {self.line_budget}'
            raise NonTermination(self.tripped)

    def install(self):
        mon = sys.monitoring
        if mon.get_tool(TOOL_ID) is None:
            mon.use_tool_id(TOOL_ID, 'rv-linebudget')
        _REGISTRY[self.code] = self
        mon.register_callback(TOOL_ID, mon.events.LINE, _dispatch)
        mon.set_local_events(TOOL_ID, self.code, mon.events.LINE)
        self.installed = True

    def uninstall(self):
        mon = sys.monitoring
        mon.set_local_events(TOOL_ID, self.code, 0)
        _REGISTRY.pop(self.code, None)
        self.installed = False

    def nondecreasing(self):
        """First violation of cursor monotonicity, or None."""
        prev = None
        for k, cur in enumerate(self.cursors):
            if prev is not None:
                for name, a, b in zip(self.cursor_names, prev, cur):
                    if a is not None and b is not None and b < a:
                        return k, name, a, b
            prev = cur
        return None


_REGISTRY = {}


def _dispatch(code, line):
    m = _REGISTRY.get(code)
    if m is not None:
        return m._cb(code, line, sys._getframe(1))
