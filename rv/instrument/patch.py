"""Attribute patching of real pyins callables.

`wrap(owner, name, pre, post)` replaces `owner.name` by a wrapper that calls
`pre(args, kwargs)` (may return a context value), the real function, and then
`post(ctx, args, kwargs, result)`.  For module-level functions every *other*
pyins module namespace that binds the same function object (``from .x import f``)
is patched too, so internal call sites resolve to the monitored version.
Monitors count their evaluations in `COUNTERS`; a deciding monitor with zero
evaluations makes the verdict inconclusive (see core.REQUIRED_OBS).
"""
import functools
import sys
import types
from collections import Counter

COUNTERS = Counter()
_PATCHES = []


def pyins_modules():
    return [m for n, m in list(sys.modules.items())
            if (n == 'pyins' or n.startswith('pyins.')) and isinstance(m, types.ModuleType)
            and '.tests' not in n]


def import_all():
    import importlib
    for n in ['earth', 'error_model', 'filters', 'inertial_sensor', 'kalman',
              'measurements', 'sim', 'strapdown', 'transform', 'util',
              '_numba_integrate']:
        importlib.import_module('pyins.' + n)


def wrap(owner, name, pre=None, post=None, counter=None, around=None):
    orig = owner.__dict__[name] if isinstance(owner, type) else getattr(owner, name)
    raw = orig
    is_static = isinstance(raw, staticmethod)
    is_class = isinstance(raw, classmethod)
    fn = raw.__func__ if (is_static or is_class) else raw
    key = counter or f'{getattr(owner, "__name__", owner)}.{name}'

    @functools.wraps(fn)
    def wrapper(*args, **kwargs):
        COUNTERS[key] += 1
        if around is not None:
            return around(fn, args, kwargs)
        ctx = pre(args, kwargs) if pre is not None else None
        result = fn(*args, **kwargs)
        if post is not None:
            post(ctx, args, kwargs, result)
        return result

    wrapper.__rv_original__ = fn
    new = staticmethod(wrapper) if is_static else classmethod(wrapper) if is_class else wrapper
    setattr(owner, name, new)
    _PATCHES.append((owner, name, raw))
    if isinstance(owner, types.ModuleType):
        for m in pyins_modules():
            if m is owner:
                continue
            for k, v in list(m.__dict__.items()):
                if v is fn:
                    setattr(m, k, wrapper)
                    _PATCHES.append((m, k, fn))
    return wrapper


def unwrap_all():
    while _PATCHES:
        owner, name, raw = _PATCHES.pop()
        setattr(owner, name, raw)


def original(f):
    return getattr(f, '__rv_original__', f)
