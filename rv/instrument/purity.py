"""Purity sanitizer: deep snapshots of arguments before / after a call, determinism replay.

snapshot(obj) -> hashable structure of (type tag, dtype, shape, bytes, labels ...) for
ndarray / Series / DataFrame / Index / list / tuple / dict / scalars and, for
plain objects, their __dict__ (depth-limited).  `diff(a, b)` names what changed.
"""
import numpy as np
import pandas as pd


def snapshot(o, depth=0):
    if isinstance(o, np.ndarray):
        if o.dtype == object:
            return ('ndobj', o.shape, tuple(snapshot(x, depth + 1) for x in o.ravel().tolist()))
        return ('nd', o.dtype.str, o.shape, np.ascontiguousarray(o).tobytes())
    if isinstance(o, pd.DataFrame):
        return ('df', tuple(map(str, o.columns)), snapshot(np.asarray(o.index), depth + 1), f'{o.index.name}|{o.columns.name}',
                tuple(snapshot(np.asarray(o[c]), depth + 1) for c in o.columns))
    if isinstance(o, pd.Series):
        return ('ser', snapshot(np.asarray(o.index), depth + 1), snapshot(np.asarray(o.values), depth + 1), f'{o.name!r}|{o.index.name}')
    if isinstance(o, pd.Index):
        return ('idx', snapshot(np.asarray(o), depth + 1), str(o.name))
    if isinstance(o, (list, tuple)):
        return (type(o).__name__, tuple(snapshot(x, depth + 1) for x in o))
    if isinstance(o, dict):
        return ('dict', tuple((str(k), snapshot(v, depth + 1)) for k, v in o.items()))
    if isinstance(o, (int, float, str, bool, complex, type(None), np.generic)):
        return ('val', repr(o))
    if isinstance(o, np.random.RandomState):
        st = o.get_state()
        return ('rng', st[0], st[1].tobytes(), st[2], st[3], st[4])
    if hasattr(o, '__dict__') and depth < 3:
        return ('obj', type(o).__name__, tuple((k, snapshot(v, depth + 1)) for k, v in sorted(vars(o).items())))
    return ('repr', type(o).__name__)


def diff(a, b, path=''):
    """Human-readable list of paths where two snapshots differ."""
    if a == b:
        return []
    if type(a) != type(b) or not isinstance(a, tuple) or len(a) != len(b) or a[0] != b[0]:
        return [path or '<root>']
    tag = a[0]
    out = []
    if tag in ('list', 'tuple', 'ndobj'):
        for i, (x, y) in enumerate(zip(a[-1], b[-1])):
            out += diff(x, y, f'{path}[{i}]')
    elif tag in ('dict', 'obj'):
        for (k, x), (_, y) in zip(a[-1], b[-1]):
            out += diff(x, y, f'{path}.{k}')
    elif tag == 'df':
        if a[1] != b[1]:
            out.append(path + '.columns')
        if a[2] != b[2] or a[3] != b[3]:
            out.append(path + '.index')
        for c, x, y in zip(a[1], a[4], b[4]):
            if x != y:
                out.append(f'{path}[{c!r}]')
    elif tag == 'ser':
        out.append(path + ('.index' if a[1] != b[1] else '.values' if a[2] != b[2] else '.name'))
    else:
        out.append(path or '<root>')
    return out or [path or '<root>']


def flatten(result):
    """Result -> list of (label, float ndarray or other) for value comparison across argument forms."""
    out = []

    def rec(o, label):
        if isinstance(o, pd.DataFrame):
            out.append((label + '.columns', list(map(str, o.columns))))
            out.append((label + '.index', np.asarray(o.index, dtype=float) if len(o.index) and np.issubdtype(np.asarray(o.index).dtype, np.number) else list(o.index)))
            out.append((label + '.values', np.asarray(o.values, dtype=float) if o.shape[1] else np.zeros((len(o), 0))))
        elif isinstance(o, pd.Series):
            out.append((label + '.labels', list(map(str, o.index))))
            try:
                out.append((label + '.values', np.asarray(o.values, dtype=float)))
            except (TypeError, ValueError):
                out.append((label + '.values', list(o.values)))
        elif isinstance(o, np.ndarray):
            out.append((label, o if o.dtype != object else list(o)))
        elif isinstance(o, (list, tuple)):
            for i, x in enumerate(o):
                rec(x, f'{label}[{i}]')
        elif isinstance(o, dict):
            for k, v in o.items():
                rec(v, f'{label}.{k}')
        elif hasattr(o, 'as_matrix'):      # scipy Rotation
            out.append((label, o.as_matrix()))
        elif isinstance(o, (int, float, np.generic)):
            out.append((label, np.asarray(o, dtype=float)))
        else:
            out.append((label, repr(o)))
    rec(result, 'result')
    return out


def compare_flat(fa, fb, ulp=0, scale_floor=1e-300):
    """ulp = 0: bitwise.  Returns list of labels that differ."""
    bad = []
    if len(fa) != len(fb):
        return ['<structure>']
    for (la, a), (lb, b) in zip(fa, fb):
        if la != lb:
            bad.append(f'{la}!={lb}')
            continue
        if isinstance(a, np.ndarray) and isinstance(b, np.ndarray):
            if a.shape != b.shape:
                bad.append(la + '.shape')
            elif ulp == 0:
                if a.dtype != b.dtype or a.tobytes() != b.tobytes():
                    bad.append(la)
            else:
                af = np.atleast_1d(a.astype(float))
                bf = np.atleast_1d(b.astype(float))
                nan = np.isnan(af) & np.isnan(bf)
                scale = max(np.abs(af[~nan]).max() if (~nan).any() else 0.0, scale_floor)
                d = np.abs(af - bf)
                d[nan] = 0
                if (d > ulp * np.finfo(float).eps * np.maximum(scale, 1e-300)).any():
                    bad.append(f'{la} (max diff {d.max():.3e}, scale {scale:.3e})')
        else:
            if a != b if not isinstance(a, np.ndarray) and not isinstance(b, np.ndarray) else True:
                bad.append(la)
    return bad
