"""Shared runner: case generation -> sharded monitored execution -> verdict.

A check module (rv/checks/Cxx.py) provides

    ID            property id
    RULE          text: how cases are generated, what makes one non-trivial
    ASSUMPTIONS   list of strings
    cases(seed, tier)      -> list of JSON-serialisable case dicts, each with
                              'cls' (input class label)
    setup()                -> optional, once per worker process (install monitors)
    run_case(case)         -> dict(violations=[...], obs={counter: int},
                                   nontrivial=bool, sample=<optional summary>)
    REQUIRED_CLASSES       classes that must receive >= 1 case (else inconclusive)
    REQUIRED_OBS           counters that must be > 0 in the aggregate (else inconclusive)
    classify(case, violation) -> mechanism key or None   (known-finding matcher)

Verdicts are three-valued: held (exit 0), violated (exit 1, VIOLATION line and
replay file), inconclusive (exit 2).  A wall-clock watchdog firing is
inconclusive, never a violation.
"""
import hashlib
import importlib
import json
import os
import subprocess
import sys
import time
import traceback

ROOT = os.environ.get('RV_ROOT') or os.path.dirname(os.path.dirname(os.path.abspath(__file__)))
REPO = os.environ.get('RV_REPO', '/repo')
NPROC = int(os.environ.get('RV_JOBS', str(min(16, os.cpu_count() or 4))))


def case_hash(case):
    blob = json.dumps({k: v for k, v in case.items() if k != 'id'},
                      sort_keys=True, default=str)
    return hashlib.sha1(blob.encode()).hexdigest()[:16]


def jsonable(o):
    import numpy as np
    if isinstance(o, dict):
        return {str(k): jsonable(v) for k, v in o.items()}
    if isinstance(o, (list, tuple, set)):
        return [jsonable(v) for v in o]
    if isinstance(o, np.ndarray):
        return jsonable(o.tolist())
    if isinstance(o, (np.floating,)):
        return float(o)
    if isinstance(o, (np.integer,)):
        return int(o)
    if isinstance(o, (np.bool_,)):
        return bool(o)
    if isinstance(o, float):
        if o != o:
            return 'nan'
        if o in (float('inf'), float('-inf')):
            return 'inf' if o > 0 else '-inf'
        return o
    if isinstance(o, (int, str, bool)) or o is None:
        return o
    return repr(o)


class Violation(Exception):
    """Raised by monitors inside a monitored execution."""
    def __init__(self, kind, message, **detail):
        super().__init__(f'{kind}: {message}')
        self.kind = kind
        self.message = message
        self.detail = detail

    def as_dict(self):
        return dict(kind=self.kind, message=self.message, detail=jsonable(self.detail))


def vio(kind, message, **detail):
    return dict(kind=kind, message=message, detail=jsonable(detail))


# --------------------------------------------------------------------------
# worker side
# --------------------------------------------------------------------------

def assert_repo():
    import pyins
    p = os.path.realpath(pyins.__file__)
    if not p.startswith(os.path.realpath(REPO) + os.sep):
        raise RuntimeError(f'pyins imported from {p}, expected under {REPO}')


def worker_main(argv):
    modname, shard_file, out_file = argv
    import warnings
    warnings.filterwarnings('ignore')
    assert_repo()
    mod = importlib.import_module(f'rv.checks.{modname}')
    with open(shard_file) as f:
        cases = json.load(f)
    results = []
    t0 = time.time()
    budget = float(os.environ.get('RV_SHARD_BUDGET', '1e9'))
    try:
        use_finite = getattr(mod, 'FINITE_MONITOR', True)
        if use_finite:
            from rv.instrument import finite
            finite.install(getattr(mod, 'FINITE_EXCLUDE', ()))       # below the check's own wrappers
        if hasattr(mod, 'setup'):
            mod.setup()
    except Exception:
        with open(out_file, 'w') as f:
            json.dump(dict(fatal=traceback.format_exc(), results=[]), f)
        return 3
    skipped = 0
    for case in cases:
        if time.time() - t0 > budget:
            skipped += 1
            continue
        t1 = time.time()
        try:
            r = mod.run_case(case)
            r = dict(r)
            r.setdefault('violations', [])
            r.setdefault('obs', {})
            r.setdefault('nontrivial', True)
            r['violations'] = [v.as_dict() if isinstance(v, Violation) else v
                               for v in r['violations']]
            if use_finite:
                bad, ncalls = finite.drain()
                r['obs']['public_calls_scanned_for_nan'] = r['obs'].get('public_calls_scanned_for_nan', 0) + ncalls
                for msg in sorted(set(bad))[:3]:
                    r['violations'].append(vio('nonfinite_output', msg))
        except Exception as e:
            # An exception that propagated THROUGH pyins code means the code under test refused an input of the property's domain (the
            # generators only produce such inputs, and the unchanged tree accepts all of them): that is a verdict.  Anything else is a bug
            # of the harness itself and stays inconclusive.
            frames = traceback.extract_tb(e.__traceback__)
            inside = [fr for fr in frames if os.path.abspath(fr.filename).startswith(os.path.join(os.path.abspath(REPO), 'pyins') + os.sep)
                      and os.sep + 'tests' + os.sep not in fr.filename]
            if isinstance(e, Violation):
                r = dict(violations=[e.as_dict()], obs={}, nontrivial=True)
            elif inside:
                fr = inside[-1]
                r = dict(violations=[vio('exception', f'{type(e).__name__}: {e} raised through {os.path.relpath(fr.filename, REPO)}:{fr.lineno} ({fr.name}) '
                                         f'for an input of the property\'s domain', tb=traceback.format_exc()[-1500:])],
                         obs={}, nontrivial=True)
            else:
                r = dict(violations=[], obs={}, nontrivial=False,
                         harness_error=traceback.format_exc())
            if use_finite:
                finite.drain()
        r['id'] = case.get('id')
        r['cls'] = case.get('cls', '-')
        r['hash'] = case_hash(case)
        r['wall'] = round(time.time() - t1, 4)
        results.append(jsonable(r))
    with open(out_file, 'w') as f:
        json.dump(dict(results=results, skipped=skipped), f)
    return 0


# --------------------------------------------------------------------------
# parent side
# --------------------------------------------------------------------------

def load_known():
    path = os.path.join(ROOT, 'known_findings.json')
    if not os.path.exists(path):
        return []
    with open(path) as f:
        return json.load(f).get('findings', [])


def run_check(modname, tier, seed, replay=None, out=sys.stdout):
    t_start = time.time()
    mod = importlib.import_module(f'rv.checks.{modname}')
    pid = mod.ID
    if replay:
        return run_replay(mod, replay, out)

    cases = mod.cases(seed, tier)
    for i, c in enumerate(cases):
        c.setdefault('id', f'{pid}-{tier[0]}{seed}-{i}')
    nshard = max(1, min(NPROC, len(cases)))
    order = list(range(len(cases)))
    # heavy cases first, then round robin
    order.sort(key=lambda i: -float(cases[i].get('cost', 1.0)))
    shards = [[] for _ in range(nshard)]
    loads = [0.0] * nshard
    for i in order:
        k = loads.index(min(loads))
        shards[k].append(cases[i])
        loads[k] += float(cases[i].get('cost', 1.0))
    work = os.path.join(ROOT, '.cache', f'{pid}-{tier}-{os.getpid()}')
    os.makedirs(work, exist_ok=True)
    wall_limit = getattr(mod, 'WALL', {}).get(tier, 600 if tier == 'quick' else 3600)
    wall_limit = float(os.environ.get('RV_WALL', wall_limit))
    procs = []
    env = dict(os.environ)
    env.update(getattr(mod, 'ENV', {}))
    env['RV_SHARD_BUDGET'] = str(wall_limit * 0.8)
    for k, sh in enumerate(shards):
        sf = os.path.join(work, f'shard{k}.json')
        of = os.path.join(work, f'out{k}.json')
        with open(sf, 'w') as f:
            json.dump(sh, f)
        p = subprocess.Popen([sys.executable, '-W', 'ignore', '-m', 'rv.worker',
                              modname, sf, of], env=env, cwd=ROOT,
                             stdout=subprocess.PIPE, stderr=subprocess.STDOUT)
        procs.append((p, of, len(sh)))
    results = []
    inconclusive = []
    deadline = t_start + wall_limit
    for p, of, n in procs:
        try:
            outp, _ = p.communicate(timeout=max(1.0, deadline - time.time()))
        except subprocess.TimeoutExpired:
            p.kill()
            outp, _ = p.communicate()
            inconclusive.append(f'watchdog: shard exceeded {wall_limit:.0f}s wall')
            continue
        if not os.path.exists(of):
            tail = (outp or b'').decode(errors='replace')[-800:]
            inconclusive.append(f'shard died rc={p.returncode}: {tail}')
            continue
        with open(of) as f:
            d = json.load(f)
        if d.get('fatal'):
            inconclusive.append('setup failed: ' + d['fatal'][-800:])
        if d.get('skipped'):
            inconclusive.append(f"{d['skipped']} cases skipped (shard time budget)")
        results.extend(d['results'])
    try:
        import shutil
        shutil.rmtree(work)
    except Exception:
        pass
    by_id = {c['id']: c for c in cases}
    return conclude(mod, tier, seed, results, by_id, inconclusive, t_start, out)


def conclude(mod, tier, seed, results, by_id, inconclusive, t_start, out):
    pid = mod.ID
    known = [k for k in load_known() if k['property'] == pid and k.get('status') == 'open']
    classify = getattr(mod, 'classify', lambda case, v: None)
    classes = {}
    obs = {}
    nontrivial = set()
    violations = []
    known_hits = {}
    harness_errors = []
    samples = []
    n_evals = 0
    signatures = set()
    for r in results:
        classes[r['cls']] = classes.get(r['cls'], 0) + 1
        for k, v in r.get('obs', {}).items():
            if isinstance(v, (int, float)):
                if k.startswith('max_'):
                    obs[k] = max(obs.get(k, 0), v)
                elif k.startswith('min_'):
                    obs[k] = min(obs.get(k, v), v)
                else:
                    obs[k] = obs.get(k, 0) + v
        if r.get('nontrivial'):
            # a batch case reports how many distinct non-trivial points it held
            for j in range(int(r.get('nontrivial_count', 1))):
                nontrivial.add((r['hash'], j))
        n_evals += int(r.get('evals', 1))
        for sg in r.get('signatures', []) or []:
            signatures.add(sg)
        if r.get('harness_error'):
            harness_errors.append((r['id'], r['harness_error']))
        if r.get('inconclusive'):
            inconclusive.append(f"{r['id']}: {r['inconclusive']}")
        for v in r['violations']:
            mech = classify(by_id.get(r['id'], {}), v)
            hit = next((k for k in known if k['key'] == mech), None) if mech else None
            if hit:
                e = known_hits.setdefault(hit['key'], dict(count=0, example=r['id'],
                                                           what=hit['what']))
                e['count'] += 1
            else:
                violations.append((r['id'], v))
        if r.get('sample') is not None and len(samples) < 4:
            samples.append(dict(case=by_id.get(r['id']), observed=r['sample']))
    if not samples:
        for r in results[:2]:
            samples.append(dict(case=by_id.get(r['id'])))
    for e in harness_errors[:3]:
        inconclusive.append(f'harness error in {e[0]}: {e[1][-600:]}')
    if len(harness_errors) > 3:
        inconclusive.append(f'... {len(harness_errors)} harness errors in total')
    for c in getattr(mod, 'REQUIRED_CLASSES', {}).get(tier, getattr(mod, 'REQUIRED_CLASSES', {}).get('all', [])):
        if classes.get(c, 0) == 0:
            inconclusive.append(f'input class {c!r} received no case')
    for c in getattr(mod, 'REQUIRED_OBS', []):
        if obs.get(c, 0) <= 0:
            inconclusive.append(f'monitor counter {c!r} is zero: deciding monitor never evaluated')
    if len(nontrivial) < 2:
        inconclusive.append('fewer than 2 distinct non-trivial cases')

    replay_paths = []
    nowrite = os.environ.get('RV_NO_WRITE') == '1'
    rdir = os.path.join(ROOT, '.cache' if nowrite else '.', 'replays', pid)
    for cid, v in violations[:20]:
        os.makedirs(rdir, exist_ok=True)
        path = os.path.join(rdir, f'{cid}.json')
        with open(path, 'w') as f:
            json.dump(dict(property=pid, case=by_id.get(cid), violation=v,
                           seed=seed, tier=tier), f, indent=1)
        replay_paths.append((cid, v, os.path.relpath(path, ROOT)))

    try:
        os.makedirs(os.path.join(ROOT, '.cache'), exist_ok=True)
        with open(os.path.join(ROOT, '.cache', f'violations_{pid}.json'), 'w') as f:
            json.dump([dict(id=cid, cls=by_id.get(cid, {}).get('cls'), **v) for cid, v in violations], f, indent=1)
    except Exception:
        pass
    wall = time.time() - t_start
    evidence = dict(
        property_id=pid, tier=tier, seed=int(seed), level='exploration',
        coverage=dict(
            evaluations=n_evals,
            cases=len(results),
            distinct_nontrivial=len(nontrivial),
            rule=mod.RULE,
            samples=jsonable(samples),
            classes=classes,
            monitor_observations=jsonable(obs),
            distinct_signatures=len(signatures),
            signature_examples=[sg[:200] for sg in sorted(signatures)[:5]],
            known_findings_seen=known_hits,
            inconclusive_reasons=inconclusive[:10],
            verdict=('violated' if violations else
                     'inconclusive' if inconclusive else 'held'),
            exhaustive=bool(getattr(mod, 'EXHAUSTIVE', {}).get(tier, False)),
        ),
        assumptions=list(getattr(mod, 'ASSUMPTIONS', [])),
        wall_s=round(wall, 2),
        violations=len(violations),
    )
    edir = os.path.join(ROOT, '.cache' if nowrite else '.', 'evidence')
    os.makedirs(edir, exist_ok=True)
    with open(os.path.join(edir, f'{pid}.json'), 'w') as f:
        json.dump(evidence, f, indent=1)

    print(f'{pid} tier={tier} seed={seed}: {len(results)} cases / {n_evals} monitored evaluations, '
          f'{len(nontrivial)} distinct non-trivial, classes={classes}', file=out)
    print(f'{pid} monitors observed: ' + json.dumps(jsonable(obs), sort_keys=True), file=out)
    for key, e in known_hits.items():
        print(f'KNOWN-FINDING: property={pid} {key}: {e["what"]} '
              f'(seen {e["count"]}x, e.g. {e["example"]})', file=out)
    if violations:
        for cid, v, path in replay_paths[:10]:
            print(f'  violated {cid}: {v["kind"]}: {v["message"]}', file=out)
        for cid, v, path in replay_paths[:10]:
            print(f'VIOLATION property={pid} replay={path}', file=out)
        print(f'{pid}: {len(violations)} violation(s) in total  [{wall:.1f}s]', file=out)
        return 1
    if inconclusive:
        for m in inconclusive[:10]:
            print(f'INCONCLUSIVE property={pid} reason={m}', file=out)
        return 2
    print(f'{pid}: held on everything explored  [{wall:.1f}s]', file=out)
    return 0


def run_replay(mod, path, out):
    import warnings
    warnings.filterwarnings('ignore')
    assert_repo()
    with open(path) as f:
        d = json.load(f)
    case = d['case'] if 'case' in d else d
    if hasattr(mod, 'setup'):
        mod.setup()
    r = mod.run_case(case)
    vs = [v.as_dict() if isinstance(v, Violation) else v for v in r.get('violations', [])]
    print(json.dumps(jsonable(dict(case=case, obs=r.get('obs'), sample=r.get('sample'),
                                   violations=vs)), indent=1), file=out)
    if vs:
        print(f'VIOLATION property={mod.ID} replay={path}', file=out)
        return 1
    print(f'{mod.ID}: replayed case holds', file=out)
    return 0
