"""C18 - state differencing, resampling and perturbation obey their algebra.

Monitors: postconditions and metamorphic relations on the real
transform.compute_state_difference / resample_state, util.to_180_range and
sim.perturb_pva, against an independent reference (own linear interpolation,
own quaternion shortest-arc slerp, own radii at the mean point).
"""
import math

import numpy as np
import pandas as pd

from rv.core import vio
from rv.instrument import patch
from rv.oracles import wgs84 as W

ID = 'C18'
RULE = ('seeded random pairs of time-indexed tables: equal index, nested (b = a[::k]), different rates '
        '1:1..1:10 with offset stamps, partially overlapping spans, jittered stamps, headings crossing '
        '+-180, longitudes near +-180, random column subsets, Series pairs; each pair is driven in both '
        'argument orders; plus angle batches up to |x| = 1e9 in scalar/array/Series/DataFrame form; '
        'non-trivial = anything but (first argument sparser, one fixed offset), the only direction the '
        'existing test executes; distinct = generator parameters'
        ' Round 3: angles stored unwrapped / several turns off (tables and Series, either operand), states within metres of the antimeridian perturbed across it.'
        ' Round 4: tables on any time origin (0, 1e3, seconds of week, seconds since 1970; tolerance eps |t| / dt times the change per interval); as many requested times as rows, each 1e-7..0.3 intervals away from a stamp.'
        ' Round 5: a bool flag column and a numeric column stored with dtype object must be interpolated linearly like any other column.')
ASSUMPTIONS = ['own interpolation / slerp reference agrees with the documented behaviour (piecewise linear, '
               'shortest-arc SLERP)', 'rounding bound 1e-7 output units for interpolation at own nodes',
               'at an angle difference of exactly +-180 the closed end -180 is accepted (half-open range and '
               'antisymmetry contradict each other there)']
REQUIRED_OBS = ['two_rate_tables', 'resample_bool_object_columns', 'resample_large_time_origin', 'resample_near_stamps', 'unwrapped_angle_tables', 'unwrapped_angle_series', 'antimeridian_perturbations', 'antisymmetry', 'swap_branch_taken', 'self_difference', 'subsample_difference', 'reference_compared',
                'angle_range', 'resample_nodes', 'resample_slerp', 'perturb_recovered', 'to180_checked',
                'series_pairs']
REQUIRED_CLASSES = {'all': ['equal', 'nested', 'rates', 'partial', 'series', 'angles', 'resample']}
TOL = 1e-7
COLS = ['lat', 'lon', 'alt', 'VN', 'VE', 'VD', 'roll', 'pitch', 'heading']
SWAPS = {'n': 0}


def setup():
    patch.import_all()
    from pyins import transform, util, sim
    patch.wrap(transform, 'compute_state_difference', counter='calls_compute_state_difference')
    patch.wrap(transform, 'resample_state', counter='calls_resample_state')
    patch.wrap(util, 'to_180_range', counter='calls_to_180_range')
    patch.wrap(sim, 'perturb_pva', counter='calls_perturb_pva')


# ---------------------------------------------------------------- reference model
def quat_from_rph(rph):
    r, p, h = (np.asarray(rph, float) * W.D2R).T / 2
    cr, sr, cp, sp, ch, sh = np.cos(r), np.sin(r), np.cos(p), np.sin(p), np.cos(h), np.sin(h)
    # q = qz(h) * qy(p) * qx(r), scalar first
    w = ch * cp * cr + sh * sp * sr
    x = ch * cp * sr - sh * sp * cr
    y = ch * sp * cr + sh * cp * sr
    z = sh * cp * cr - ch * sp * sr
    return np.stack([w, x, y, z], axis=-1)


def rph_from_quat(q):
    w, x, y, z = q.T
    roll = np.arctan2(2 * (w * x + y * z), 1 - 2 * (x * x + y * y))
    pitch = np.arcsin(np.clip(2 * (w * y - z * x), -1, 1))
    head = np.arctan2(2 * (w * z + x * y), 1 - 2 * (y * y + z * z))
    return np.stack([roll, pitch, head], axis=-1) / W.D2R


def own_slerp(t0, q0, times):
    idx = np.clip(np.searchsorted(t0, times, side='right') - 1, 0, len(t0) - 2)
    a = q0[idx]
    b = q0[idx + 1].copy()
    dot = np.sum(a * b, axis=1)
    b[dot < 0] *= -1                       # shortest arc
    dot = np.abs(dot)
    u = (times - t0[idx]) / (t0[idx + 1] - t0[idx])
    om = np.arccos(np.clip(dot, -1, 1))
    so = np.sin(om)
    small = so < 1e-9
    so_ = np.where(small, 1, so)
    wa = np.where(small, 1 - u, np.sin((1 - u) * om) / so_)
    wb = np.where(small, u, np.sin(u * om) / so_)
    q = wa[:, None] * a + wb[:, None] * b
    return q / np.linalg.norm(q, axis=1)[:, None]


def own_resample(state, times):
    t0 = np.asarray(state.index, float)
    times = np.sort(np.asarray(times, float))
    times = times[(times >= t0[0]) & (times <= t0[-1])]
    out = pd.DataFrame(index=times, columns=state.columns, dtype=float)
    idx = np.clip(np.searchsorted(t0, times, side='right') - 1, 0, len(t0) - 2)
    u = (times - t0[idx]) / (t0[idx + 1] - t0[idx])
    has_rph = all(c in state for c in ['roll', 'pitch', 'heading'])
    for c in state.columns:
        if has_rph and c in ('roll', 'pitch', 'heading'):
            continue
        v = state[c].values.astype(float)
        out[c] = v[idx] + u * (v[idx + 1] - v[idx])
    if has_rph:
        q = own_slerp(t0, quat_from_rph(state[['roll', 'pitch', 'heading']].values), times)
        out[['roll', 'pitch', 'heading']] = rph_from_quat(q)
    return out


def wrap180(d):
    return (np.asarray(d, float) + 180.0) % 360.0 - 180.0


def own_difference(first, second):
    sign = 1.0
    if np.median(np.diff(first.index)) < np.median(np.diff(second.index)):
        first, second = second, first
        sign = -1.0
    idx = first.index[(first.index >= second.index[0]) & (first.index <= second.index[-1])]
    cols = [c for c in first.columns if c in second.columns]
    a = first.loc[idx, cols]
    b = own_resample(second[cols], idx)
    d = pd.DataFrame(index=idx)
    for c in cols:
        d[c] = a[c].values - b[c].values
    if all(c in cols for c in ['lat', 'lon', 'alt']):
        rn, _, rp = W.radii(0.5 * (a.lat.values + b.lat.values), 0.5 * (a.alt.values + b.alt.values))
        d['lat'] = d['lat'] * W.D2R * rn
        d['lon'] = d['lon'] * W.D2R * rp
        d['alt'] = -d['alt']
        d = d.rename(columns={'lat': 'north', 'lon': 'east', 'alt': 'down'})
    if all(c in cols for c in ['roll', 'pitch', 'heading']):
        for c in ['roll', 'pitch', 'heading']:
            d[c] = wrap180(d[c].values)
    return sign * d, sign


# ---------------------------------------------------------------- generators
def make_table(rng, t, seam=False, heading_wrap=True):
    n = len(t)
    T = t - t[0]
    lat0 = rng.uniform(-80, 80)
    lon0 = rng.uniform(-179, 179) if not seam else rng.choice([-179.99, 179.98])
    lat = lat0 + 1e-4 * rng.uniform(-1, 1) * T + 1e-4 * np.sin(0.3 * T + rng.uniform(0, 6))
    lon = lon0 + 1e-5 * rng.uniform(-1, 1) * T * (0 if seam else 1) + 1e-6 * np.sin(0.2 * T)
    alt = rng.uniform(0, 5000) + rng.uniform(-3, 3) * T + 5 * np.sin(0.5 * T)
    vel = rng.uniform(-50, 50, 3) + rng.uniform(1, 10, 3) * np.sin(np.outer(T, rng.uniform(0.1, 1, 3)) + rng.uniform(0, 6, 3))
    roll = rng.uniform(-170, 170) + 8 * np.sin(0.7 * T + rng.uniform(0, 6))
    pitch = rng.uniform(-60, 60) + 8 * np.sin(0.5 * T + rng.uniform(0, 6))
    head = rng.uniform(-180, 180) + rng.uniform(-20, 20) * T + 5 * np.sin(0.4 * T)
    if heading_wrap:
        head = wrap180(head)
        head[head == -180] = 180
        roll = wrap180(roll)
    df = pd.DataFrame(np.column_stack([lat, lon, alt, vel, roll, pitch, head]), index=pd.Index(t, name='time'),
                      columns=COLS)
    return df


def perturb_table(rng, df, scale=1.0):
    out = df.copy()
    n = len(df)
    out['lat'] += scale * 1e-5 * rng.standard_normal(n)
    out['lon'] += scale * 1e-5 * rng.standard_normal(n)
    out['alt'] += scale * rng.standard_normal(n)
    for c in ['VN', 'VE', 'VD']:
        out[c] += scale * 0.1 * rng.standard_normal(n)
    for c in ['roll', 'pitch', 'heading']:
        out[c] = wrap180(out[c].values + scale * 0.1 * rng.standard_normal(n))
    return out


def cases(seed, tier):
    classes = ['equal', 'nested', 'rates', 'partial', 'series', 'angles', 'resample']
    n = 2100 if tier == 'quick' else 42000
    return [dict(seed=int(seed) * 1000003 + i, cls=classes[i % len(classes)]) for i in range(n)]


def col_subset(rng):
    r = rng.random()
    if r < 0.5:
        return list(COLS)
    if r < 0.65:
        return ['lat', 'lon', 'alt']
    if r < 0.8:
        return ['VN', 'VE', 'VD', 'roll', 'pitch', 'heading']
    if r < 0.9:
        return ['roll', 'pitch', 'heading']
    return ['lat', 'lon', 'alt', 'VN', 'VE', 'VD']


def run_case(case):
    from pyins import transform, util, sim
    rng = np.random.Generator(np.random.PCG64(case['seed']))
    cls = case['cls']
    out = []
    obs = {}

    def bump(k, m=1):
        obs[k] = obs.get(k, 0) + int(m)

    def fail(kind, msg, **d):
        if len(out) < 12:
            out.append(vio(kind, msg, **d))

    def check_range(d, label):
        for c in ['roll', 'pitch', 'heading']:
            if c in d:
                v = np.asarray(d[c], float)
                bump('angle_range', v.size)
                if (v < -180).any() or (v > 180).any():
                    fail('angle_range', f'{label}: {c} difference outside [-180, 180]: {v[(v < -180) | (v > 180)][:3].tolist()}')
                if (v == -180).any():
                    bump('closed_end_minus180_seen', int((v == -180).sum()))

    def compare(d, ref, label):
        if list(d.columns) != list(ref.columns):
            fail('columns', f'{label}: columns {list(d.columns)} expected {list(ref.columns)}')
            return
        if len(d.index) != len(ref.index) or not np.array_equal(np.asarray(d.index, float), np.asarray(ref.index, float)):
            fail('result_index', f'{label}: result index has {len(d.index)} stamps, expected the sparser table\'s '
                 f'{len(ref.index)} stamps inside the other span')
            return
        bump('reference_compared')
        for c in d.columns:
            e = np.abs(d[c].values.astype(float) - ref[c].values)
            if c in ('roll', 'pitch', 'heading'):
                e = np.abs(wrap180(e))
            if len(e) and e.max() > TOL:
                i = int(np.argmax(e))
                fail('difference_value', f'{label}: column {c} differs from reference by {e[i]:.3e} at t={d.index[i]} '
                     f'(got {d[c].values[i]!r}, expected {ref[c].values[i]!r})')

    def pair_checks(a, b, label):
        dab = transform.compute_state_difference(a, b)
        dba = transform.compute_state_difference(b, a)
        ref_ab, s1 = own_difference(a, b)
        ref_ba, s2 = own_difference(b, a)
        if s1 < 0 or s2 < 0:
            bump('swap_branch_taken')
        compare(dab, ref_ab, label + ' d(a,b)')
        compare(dba, ref_ba, label + ' d(b,a)')
        check_range(dab, label)
        check_range(dba, label)
        same_idx = len(dab.index) == len(dba.index) and np.array_equal(np.asarray(dab.index), np.asarray(dba.index))
        if same_idx and len(dab):
            bump('antisymmetry')
            for c in dab.columns:
                s = dab[c].values.astype(float) + dba[c].values.astype(float)
                if c in ('roll', 'pitch', 'heading'):
                    # x % 360 on a negative difference rounds at ulp(360): modulo 360 to 1e-12
                    ok = np.abs(wrap180(s)) <= 1e-12
                else:
                    ok = s == 0.0
                if not ok.all():
                    i = int(np.argmin(ok))
                    fail('antisymmetry', f'{label}: d(a,b)+d(b,a) != 0 in column {c} at t={dab.index[i]}: '
                         f'{dab[c].values[i]!r} + {dba[c].values[i]!r}')
        elif s1 != s2:
            fail('antisymmetry_index', f'{label}: d(a,b) and d(b,a) are indexed differently although one table is denser')
        return dab

    if cls in ('equal', 'nested', 'rates', 'partial'):
        n = int(rng.integers(12, 80))
        dt = rng.uniform(0.05, 1.0)
        t = rng.uniform(0, 100) + np.arange(n) * dt
        if rng.random() < 0.4:
            t = t + rng.uniform(-0.3, 0.3, n) * dt
        cols = col_subset(rng)
        a_full = make_table(rng, t, seam=rng.random() < 0.15)
        if cls == 'equal':
            a = a_full[cols]
            b = perturb_table(rng, a_full)[cols]
            # self difference: exactly the same table
            daa = transform.compute_state_difference(a, a)
            bump('self_difference')
            if len(daa) != len(a) or np.abs(daa.values.astype(float)).max() > TOL:
                fail('self_difference', f'd(a,a) != 0: max {np.abs(daa.values.astype(float)).max():.3e}')
            pair_checks(a, b, 'equal-index')
            if 'heading' in cols or 'roll' in cols:
                # angles stored unwrapped / several turns off (integrated yaw rate, np.unwrap): "all finite angles" - same states
                au = a.copy()
                for c in ('heading', 'roll'):
                    if c in cols:
                        au[c] = np.rad2deg(np.unwrap(np.deg2rad(a[c].values))) + 360.0 * int(rng.integers(-3, 4))
                bump('unwrapped_angle_tables')
                d0 = transform.compute_state_difference(a, b)
                du = transform.compute_state_difference(au, b)
                db = transform.compute_state_difference(b, au)
                check_range(du, 'unwrapped first table')
                check_range(db, 'unwrapped second table')
                for c in d0.columns:
                    e_ = du[c].values.astype(float) - d0[c].values.astype(float)
                    e2_ = db[c].values.astype(float) + d0[c].values.astype(float)
                    if c in ('roll', 'pitch', 'heading'):
                        e_, e2_ = wrap180(e_), wrap180(e2_)
                    if max(np.abs(e_).max(), np.abs(e2_).max()) > 1e-9:
                        fail('unwrapped_angles', f'{c}: the difference changes by {max(np.abs(e_).max(), np.abs(e2_).max()):.3e} when the same attitude is stored with unwrapped '
                             f'angles (heading range {float(au.get("heading", a.iloc[:, 0]).min()):.0f}..{float(au.get("heading", a.iloc[:, 0]).max()):.0f})')
                        break
                dself = transform.compute_state_difference(au, au)
                dsub = transform.compute_state_difference(au, au.iloc[::2]) if len(au) >= 6 else dself
                if np.abs(dself.values.astype(float)).max() > TOL or np.abs(dsub.values.astype(float)).max() > TOL:
                    fail('self_difference', f'table with unwrapped angles against itself / its sub-sampling: max {max(np.abs(dself.values.astype(float)).max(), np.abs(dsub.values.astype(float)).max()):.3e}')
        elif cls == 'nested':
            k = int(rng.integers(2, 6))
            a = a_full[cols]
            sub = a.iloc[::k]
            if rng.random() < 0.4:
                # Round 6: a variable-rate log (dense, then sparse - or a long outage) against a sub-sampling drawn from its dense part: the table's
                # MEAN step is far above its typical step, the sub-sampling's step lies between the two; the table is still the denser one
                n1 = int(rng.integers(40, 90))
                n2 = int(rng.integers(3, 12))
                t2 = t[0] + np.r_[np.arange(n1) * dt, (n1 - 1) * dt + np.cumsum(rng.uniform(20, 100, n2) * dt)]
                a_full = make_table(rng, t2, seam=False)
                a = a_full[cols]
                sub = a.iloc[:n1:k]
                bump('two_rate_tables')
            if len(sub) >= 3:
                for first, second, lab in ((a, sub, 'd(a, a[::k])'), (sub, a, 'd(a[::k], a)')):
                    d = transform.compute_state_difference(first, second)
                    bump('subsample_difference')
                    if len(d) != len(sub) or not np.array_equal(np.asarray(d.index), np.asarray(sub.index)):
                        fail('subsample_index', f'{lab}: index is not the sub-sampled stamps ({len(d)} vs {len(sub)})')
                    elif np.abs(d.values.astype(float)).max() > TOL:
                        fail('subsample_difference', f'{lab} != 0: max {np.abs(d.values.astype(float)).max():.3e}')
                b = perturb_table(rng, a_full.iloc[::k])[cols]
                if rng.random() < 0.5:
                    b = b[list(rng.permutation(cols))]          # column order of the other argument is irrelevant
                pair_checks(a, b, f'nested k={k}')
        else:
            ratio = int(rng.integers(1, 11))
            m = max(4, n // max(ratio, 1))
            dtb = dt * ratio * rng.uniform(1.01, 1.3) if ratio > 1 else dt * rng.uniform(1.05, 1.9)
            if cls == 'rates':
                tb = t[0] + rng.uniform(0, dt) + np.arange(m) * dtb
                tb = tb[tb <= t[-1]]
            else:
                tb = t[0] + (t[-1] - t[0]) * rng.uniform(-0.4, 0.6) + np.arange(m) * dtb
            if len(tb) >= 3 and ((tb >= t[0]) & (tb <= t[-1])).sum() >= 1:
                # b describes the same motion sampled elsewhere, plus an error
                tt = np.union1d(t, tb)
                full = make_table(np.random.Generator(np.random.PCG64(case['seed'] + 1)), tt, heading_wrap=False)
                full['heading'] = wrap180(full['heading'].values)
                full['roll'] = wrap180(full['roll'].values)
                a = full.loc[t, cols]
                b = perturb_table(rng, full.loc[tb])[cols]
                pair_checks(a, b, f'{cls} ratio~{ratio}')
        return dict(violations=out, obs=obs, nontrivial=True,
                    sample=dict(cls=cls, rows=n, dt=dt, columns=cols))

    if cls == 'series':
        t = np.array([rng.uniform(0, 10)])
        pva = make_table(rng, np.array([t[0], t[0] + 1.0])).iloc[0]
        # ladder: perturb with a known output-space error, difference must recover it to first order
        e0 = pd.Series(np.hstack([rng.standard_normal(3) * 100, rng.standard_normal(3), rng.standard_normal(3) * 0.5]),
                       index=['north', 'east', 'down', 'VN', 'VE', 'VD', 'roll', 'pitch', 'heading'])
        tanl = abs(math.tan(pva.lat * W.D2R))
        for s in (1.0, 0.1, 0.01):
            e = e0 * s
            p = sim.perturb_pva(pva, e)
            d = transform.compute_state_difference(p, pva)
            bump('perturb_recovered')
            bump('series_pairs')
            if list(d.index) != list(e.index):
                fail('series_labels', f'Series difference labels {list(d.index)}')
                break
            npos = np.linalg.norm(e[['north', 'east', 'down']])
            bound = 4 * npos ** 2 * (1 + tanl) / 6.3e6 + 1e-8
            rpos = np.abs(d[['north', 'east', 'down']].values.astype(float) - e[['north', 'east', 'down']].values).max()
            if rpos > bound:
                fail('perturb_recovery_position', f'difference of perturbed state recovers position error only to {rpos:.3e} m '
                     f'(bound {bound:.3e}) for |e|={npos:.3g} m at lat={pva.lat}')
            rv = np.abs(d[['VN', 'VE', 'VD']].values.astype(float) - e[['VN', 'VE', 'VD']].values).max()
            ra = np.abs(wrap180(d[['roll', 'pitch', 'heading']].values.astype(float) - e[['roll', 'pitch', 'heading']].values)).max()
            if rv > 1e-10 or ra > 1e-10:
                fail('perturb_recovery', f'velocity / attitude error not recovered: {rv:.3e} m/s {ra:.3e} deg')
            d2 = transform.compute_state_difference(pva, p)
            s_ = d.values.astype(float) + d2.values.astype(float)
            bump('antisymmetry')
            if (np.abs(wrap180(s_[6:])) > 1e-12).any() or (s_[:6] != 0).any():
                fail('antisymmetry', f'Series pair: d(a,b)+d(b,a) = {s_.tolist()}')
            check_range(d.to_frame().T, 'series')
        # the same perturbed state with its angles several turns off: same difference, still in range
        pu = sim.perturb_pva(pva, e0 * 0.1)
        dref = transform.compute_state_difference(pu, pva)
        for which in ('first', 'second'):
            qa, qb = pu.copy(), pva.copy()
            tgt = qa if which == 'first' else qb
            tgt['heading'] += 360.0 * int(rng.choice([-2, -1, 1, 2, 3]))
            tgt['roll'] += 360.0 * int(rng.integers(-2, 3))
            du = transform.compute_state_difference(qa, qb)
            bump('unwrapped_angle_series')
            check_range(du.to_frame().T, f'series, {which} operand unwrapped')
            if np.abs(wrap180(du[['roll', 'pitch', 'heading']].values.astype(float) - dref[['roll', 'pitch', 'heading']].values.astype(float))).max() > 1e-9:
                fail('unwrapped_angles', f'Series pair: angle differences {du[["roll", "pitch", "heading"]].values.tolist()} with the {which} operand stored '
                     f'{tgt["heading"]:.1f} / {tgt["roll"]:.1f} (several turns off) vs {dref[["roll", "pitch", "heading"]].values.tolist()}')
        # a state within metres of the antimeridian, perturbed across it: the difference must still recover the error
        for sgn in (1.0, -1.0):
            pm = pva.copy()
            east = abs(float(e0['east'])) + 1.0
            rp_ = W.radii(pm.lat, pm.alt)[2]
            pm['lon'] = sgn * (180.0 - float(rng.uniform(0.05, 0.9)) * np.rad2deg(east / rp_))
            e = e0.copy()
            e['east'] = sgn * east
            p = sim.perturb_pva(pm, e)
            d = transform.compute_state_difference(p, pm)
            bump('antimeridian_perturbations')
            npos = np.linalg.norm(e[['north', 'east', 'down']])
            bound = 4 * npos ** 2 * (1 + tanl) / 6.3e6 + 1e-8
            rpos = np.abs(d[['north', 'east', 'down']].values.astype(float) - e[['north', 'east', 'down']].values).max()
            if rpos > bound:
                fail('perturb_recovery_position', f'state at lon={pm.lon!r} perturbed by {e["east"]:.2f} m east (across the antimeridian; perturbed lon {p.lon!r}): the difference '
                     f'recovers the position error only to {rpos:.3e} m (bound {bound:.3e})')
        # heading pair across the wrap
        q = pva.copy()
        q['heading'] = 179.0
        r = pva.copy()
        r['heading'] = -179.5
        d = transform.compute_state_difference(q, r)
        if abs(float(d['heading']) - (-1.5)) > 1e-9:
            fail('wrap_difference', f'heading 179 - (-179.5) reported as {float(d["heading"])!r}, expected -1.5')
        try:
            transform.compute_state_difference(pva, pva.to_frame().T)
            fail('mixed_inputs', 'Series vs DataFrame did not raise')
        except ValueError:
            pass
        return dict(violations=out, obs=obs, nontrivial=True, sample=dict(cls=cls, lat=float(pva.lat)))

    if cls == 'angles':
        n = 400
        mag = 10 ** rng.uniform(-3, 9, n) * rng.choice([-1, 1], n)
        x = np.concatenate([mag, [0.0, 180.0, -180.0, 360.0, -360.0, 540.0, -540.0, 179.99999999999997,
                                  -179.99999999999997, 1e9, -1e9, 720.0, -1e-20, 1e-20, 180.00000000000003]])
        own = np.array([math.fmod(v, 360.0) for v in x])
        own = np.where(own <= -180, own + 360, own)
        own = np.where(own > 180, own - 360, own)
        forms = {
            'array': util.to_180_range(x.copy()),
            'series': util.to_180_range(pd.Series(x.copy())),
            'frame': util.to_180_range(pd.DataFrame({'a': x.copy(), 'b': x[::-1].copy()})),
            'list': util.to_180_range(list(x)),
        }
        vals = {'array': np.asarray(forms['array']), 'series': forms['series'].values,
                'frame': forms['frame']['a'].values, 'list': np.asarray(forms['list'])}
        if not isinstance(forms['series'], pd.Series) or not isinstance(forms['frame'], pd.DataFrame):
            fail('to180_type', 'pandas input did not give pandas output')
        if not np.array_equal(forms['frame']['b'].values[::-1], forms['frame']['a'].values):
            fail('to180_frame', 'DataFrame columns reduced inconsistently')
        for k, v in vals.items():
            bump('to180_checked', len(v))
            if v.shape != x.shape:
                fail('to180_shape', f'{k}: shape {v.shape}')
                continue
            if ((v <= -180) | (v > 180)).any():
                j = int(np.argmax((v <= -180) | (v > 180)))
                fail('to180_range', f'{k}: to_180_range({x[j]!r}) = {v[j]!r} outside (-180, 180]')
            e = np.abs(v - own)
            if (e > 1e-13).any():
                j = int(np.argmax(e))
                fail('to180_congruence', f'{k}: to_180_range({x[j]!r}) = {v[j]!r}, congruent value is {own[j]!r}')
        for v in x[:60]:
            s = util.to_180_range(float(v))
            bump('to180_checked')
            if np.ndim(s) != 0:
                fail('to180_scalar', f'scalar input returned ndim {np.ndim(s)}')
            elif not (-180 < float(s) <= 180) or abs(float(s) - own[list(x).index(v)]) > 1e-13:
                fail('to180_scalar', f'to_180_range({v!r}) = {float(s)!r}')
        return dict(violations=out, obs=obs, nontrivial=True, evals=len(x), nontrivial_count=len(x),
                    sample=dict(cls=cls, n=len(x), max_abs=float(np.abs(x).max())))

    if cls == 'resample':
        n = int(rng.integers(8, 60))
        dt = rng.uniform(0.05, 1.0)
        t = rng.uniform(-5, 50) + np.arange(n) * dt + rng.uniform(-0.3, 0.3, n) * dt * (rng.random() < 0.5)
        # any time origin: seconds since start, seconds of week, seconds since 1970
        t0_ = float(rng.choice([0.0, 0.0, 1e3, 345600.0, 1.7e9]))
        t = t + t0_
        bump('resample_large_time_origin', int(t0_ > 0))
        cols = col_subset(rng)
        if rng.random() < 0.5:
            cols = list(rng.permutation(cols))
        st = make_table(rng, t)[cols]
        # interpolation weights are formed from differences of stamps: rounding eps * |t| / dt times the change of the column over an interval
        rt_ = 40 * np.finfo(float).eps * np.abs(t).max() / np.diff(t).min()
        tolc = {c: TOL + rt_ * (np.abs(wrap180(np.diff(st[c].values))).max() if c in ('roll', 'pitch', 'heading') else np.abs(np.diff(st[c].values)).max()) for c in cols}
        # (1) original rows at original times
        r0 = transform.resample_state(st, np.asarray(st.index))
        bump('resample_nodes')
        if list(r0.columns) != cols:
            fail('resample_columns', f'column order {list(r0.columns)} != {cols}')
        elif len(r0) != len(st):
            fail('resample_nodes', 'resampling at own stamps changed the number of rows')
        else:
            e = np.abs(r0.values.astype(float) - st.values)
            for j, c in enumerate(cols):
                ee = np.abs(wrap180(e[:, j])) if c in ('roll', 'pitch', 'heading') else e[:, j]
                if ee.max() > TOL:
                    fail('resample_nodes', f'column {c} not reproduced at original stamps: {ee.max():.3e}')
        # (2) arbitrary times incl. out-of-span and unsorted
        tq = rng.uniform(t[0] - 2 * dt, t[-1] + 2 * dt, int(rng.integers(5, 50)))
        tq = np.concatenate([tq, [t[0], t[-1], t[0] - 1e-9, t[-1] + 1e-9]])
        r1 = transform.resample_state(st, tq)
        ref = own_resample(st, tq)
        exp_t = np.sort(tq[(tq >= t[0]) & (tq <= t[-1])])
        if not np.array_equal(np.asarray(r1.index, float), exp_t):
            fail('resample_span', f'result stamps are not the sorted in-span requested times ({len(r1)} vs {len(exp_t)})')
        elif list(r1.columns) != cols:
            fail('resample_columns', f'column order {list(r1.columns)} != {cols}')
        else:
            for c in cols:
                e = np.abs(r1[c].values.astype(float) - ref[c].values)
                if c in ('roll', 'pitch', 'heading'):
                    e = np.abs(wrap180(e))
                    bump('resample_slerp', len(e))
                if len(e) and e.max() > tolc[c]:
                    i = int(np.argmax(e))
                    fail('resample_value', f'column {c} at t={r1.index[i]}: got {r1[c].values[i]!r}, reference {ref[c].values[i]!r} '
                         f'({"shortest-arc slerp" if c in ("roll", "pitch", "heading") else "linear"})')
        # (2b) "interpolates other columns linearly": also a validity flag stored as bool and a numeric column stored with dtype object
        if len(t) >= 4:
            stx = st.copy()
            stx['flag'] = (np.arange(len(t)) % 3 == 0)
            stx['quality'] = pd.Series(np.round(rng.uniform(0, 9, len(t)), 1), index=stx.index).astype(object)
            tq2 = np.sort(rng.uniform(t[0], t[-1], 8))
            try:
                rx = transform.resample_state(stx, tq2)
                bump('resample_bool_object_columns')
                for c_, vals_ in (('flag', stx['flag'].values.astype(float)), ('quality', stx['quality'].values.astype(float))):
                    exp_ = np.interp(tq2, t, vals_)
                    got_ = np.asarray(rx[c_].values, dtype=float)
                    if np.abs(got_ - exp_).max() > 1e-9 + tolc.get(cols[0], TOL):
                        i_ = int(np.argmax(np.abs(got_ - exp_)))
                        fail('resample_value', f'column {c_} (dtype {stx[c_].dtype}) at t={tq2[i_]!r}: got {got_[i_]!r}, linear interpolation gives {exp_[i_]!r}')
                        break
            except Exception as e_:
                fail('exception', f'resample_state with a bool and an object-typed numeric column raised {type(e_).__name__}: {e_}')
        # (3) as many requested times as rows, each CLOSE to a stamp but not on it (a log regularised onto a grid, two receivers with slightly
        # different clocks): still interpolation, not the row itself
        frac = 10 ** rng.uniform(-7, -0.5)
        dq = np.diff(t).min() * frac * rng.uniform(0.2, 1.0, n) * rng.choice([-1.0, 1.0], n)
        dq[0], dq[-1] = abs(dq[0]), -abs(dq[-1])
        tq = t + dq
        if np.all(np.diff(tq) > 0) and not np.any(tq == t):
            r2 = transform.resample_state(st, tq)
            ref2 = own_resample(st, tq)
            bump('resample_near_stamps')
            if len(r2) != len(tq) or not np.array_equal(np.asarray(r2.index, float), tq):
                fail('resample_span', f'{len(tq)} in-span times close to the stamps requested, {len(r2)} rows returned')
            else:
                for c in cols:
                    e = np.abs(r2[c].values.astype(float) - ref2[c].values)
                    if c in ('roll', 'pitch', 'heading'):
                        e = np.abs(wrap180(e))
                    if e.max() > tolc[c]:
                        i = int(np.argmax(e))
                        fail('resample_value', f'column {c} requested {dq[i]:.3e} s away from the stamp {t[i]!r}: got {r2[c].values[i]!r}, interpolation gives {ref2[c].values[i]!r} '
                             f'(the row itself holds {st[c].values[i]!r})')
                        break
        return dict(violations=out, obs=obs, nontrivial=True, sample=dict(cls=cls, rows=n, columns=cols))
    raise ValueError(cls)
