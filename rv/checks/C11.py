"""C11 - feedforward filter equals the exact linear-Gaussian estimator of its model.

Each case runs the real run_feedforward_filter under the boundary event recorder
(with arrays kept: the (z, H, R) returned by the public measurement models, the
pva handed to InsErrorModel.system_matrices) and compares every result field with
an independent ONE-SHOT Gauss-Markov solution (rv.oracles.batch_gm) of the
time-varying linear system assembled by the oracle itself from public pieces
only: own mid-point pva of nominal rows, public system_matrices, public
EstimationModel attributes (F, G, q, J, v, P, output_matrix), own joint
assembly, own Van Loan in the textbook arrangement, own initial covariance.
"""
import numpy as np
import pandas as pd

from rv.core import vio
from rv.instrument import events, patch
from rv.oracles import batch_gm

ID = 'C11'
RULE = ('seeded configurations: sine-velocity trajectories sampled at 50..500 ms, computed trajectory = strapdown of an error-corrupted IMU '
        'from a perturbed initial state, nominal = computed or truth; enable masks of both sensor models sampled (bias / walk / noise per '
        'axis, 0..3 scale-misalignment entries), sigmas over 4 decades; 0..3 sensors with lever arms, epochs on / off the grid, coincident, '
        'clustered; time_step 0.2..5 s; both altitude modes; 12..80 grid points; non-trivial = any case with bias walk, scale/misalignment, '
        'off-grid epochs or 2-D mode (the tests use bias + white noise, on-grid epochs, statistical thresholds); distinct = distinct seeds'
        ' Round 3: every sample of every sensor in [first grid time, last input time) must be among the measurement blocks of the estimate (conservation), epochs of two receivers equal to 1 ulp but not bitwise.'
        ' Round 4: a third of the sensors report a full (correlated) covariance.'
        ' Round 5: sensors listed in any order.'
        ' Round 6: user-defined Measurement subclasses delivering ONE observation per sample (east speed, altimeter) mixed with the built-in sensors; sensor-model axes disabled with negative marks.')
ASSUMPTIONS = ['the reference conditions the joint Gaussian in one shot (Cholesky of the full innovation covariance); agreement demanded to '
               '1e-5 of the reported standard deviation, times cond/1e9 beyond that conditioning (prototype agreement 1e-13; worst seen in calibration 2.3e-7 at cond 2.5e9); cases whose innovation covariance has cond > 1e10 are '
               'counted as ill-conditioned and not decided', 'measurement rows are attached to the grid row at or before their epoch, which is '
               'how the filter linearises them']
REQUIRED_OBS = ['models_with_negative_disable_marks', 'user_defined_scalar_sensors', 'sensors_with_correlated_noise', 'samples_accounted', 'runs', 'grid_points', 'measurement_blocks', 'sd_compared', 'estimates_compared', 'trajectory_compared',
                'innovations_compared', 'midpoint_crosschecked', 'with_walk', 'with_scale_misal', 'two_d', 'off_grid_epochs']
REQUIRED_CLASSES = {'all': ['3d', '2d']}
LLA = ['lat', 'lon', 'alt']
VEL = ['VN', 'VE', 'VD']
RPH = ['roll', 'pitch', 'heading']
TH = ['theta_x', 'theta_y', 'theta_z']
DV = ['dv_x', 'dv_y', 'dv_z']
TOL = 1e-5


def user_sensors():
    """User-defined measurements (the documented extension point `Measurement.compute_matrices`): ONE observation per sample - a shape none of the
    built-in sensors ever delivers (3 rows, 2 in the no-altitude mode) - and a two-row sensor whose noise matrix is not diagonal."""
    if 'user' in STATE:
        return STATE['user']
    from pyins import measurements

    class EastSpeed(measurements.Measurement):
        def __init__(self, data, sd):
            super().__init__(data)
            self.R = np.array([[sd ** 2]])

        def compute_matrices(self, time, pva, error_model):
            if time not in self.data.index:
                return None
            z = np.array([pva['VE'] - self.data.loc[time, 'VE']])
            H = error_model.ned_velocity_error_jacobian(pva)[1:2]
            return z, H, self.R

    class Altimeter(measurements.Measurement):
        def __init__(self, data, sd):
            super().__init__(data)
            self.R = np.array([[sd ** 2]])

        def compute_matrices(self, time, pva, error_model):
            if time not in self.data.index or not error_model.with_altitude:
                return None
            z = np.array([pva['alt'] - self.data.loc[time, 'alt']])
            H = -error_model.position_error_jacobian(pva)[2:3]
            return z, H, self.R
    events.wrap_measurement_class(EastSpeed)
    events.wrap_measurement_class(Altimeter)
    STATE['user'] = (EastSpeed, Altimeter)
    return STATE['user']


STATE = {}


def setup():
    patch.import_all()
    events.install()
    user_sensors()


def cases(seed, tier):
    n = 64 if tier == 'quick' else 2000
    return [dict(seed=int(seed) * 1000003 + i, cls='3d' if i % 2 == 0 else '2d', cost=3) for i in range(n)]


def random_model(rng, scale_bias, scale_noise, scale_walk, allow_sm):
    from pyins import inertial_sensor
    bias_on = rng.random(3) < 0.7
    walk_on = bias_on & (rng.random(3) < 0.4)
    noise_on = rng.random(3) < 0.6
    sm = np.zeros((3, 3))
    if allow_sm:
        for _ in range(int(rng.integers(0, 4))):
            sm[int(rng.integers(0, 3)), int(rng.integers(0, 3))] = 10 ** rng.uniform(-4, -2)
    kw = dict(bias_sd=np.where(bias_on, scale_bias * 10 ** rng.uniform(-2, 2, 3), 0.0) if bias_on.any() else None,
              noise=np.where(noise_on, scale_noise * 10 ** rng.uniform(-2, 2, 3), 0.0) if noise_on.any() else None,
              bias_walk=np.where(walk_on, scale_walk * 10 ** rng.uniform(-2, 2, 3), 0.0) if walk_on.any() else None,
              scale_misal_sd=sm if sm.any() else None)
    # Round 6: the documented encoding "non-positive elements disable" - an axis switched off with a NEGATIVE mark instead of 0
    mrng = np.random.Generator(np.random.PCG64(int(rng.integers(0, 2 ** 31))))
    if mrng.random() < 0.35:
        for k_ in ('bias_sd', 'noise', 'bias_walk', 'scale_misal_sd'):
            if kw[k_] is not None and (np.asarray(kw[k_]) == 0).any():
                a_ = np.array(kw[k_], float)
                a_[a_ == 0] = mrng.choice([-1.0, -0.5, -1e-3], int((a_ == 0).sum()))
                kw[k_] = a_
                kw['_negative_marks'] = True
    return kw


def build(seed, wa):
    from pyins import sim, strapdown, measurements, inertial_sensor, transform
    rng = np.random.Generator(np.random.PCG64(seed))
    dt = float(rng.choice([0.05, 0.1, 0.2, 0.5]))      # 0.5 s: trajectory sampled more coarsely than the smallest time steps
    time_step = float(np.round(10 ** rng.uniform(np.log10(0.2), np.log10(5.0)), 3))
    K = int(rng.integers(12, 60))
    total = float(min(90.0, max(6.0, K * time_step)))
    lla0 = [float(rng.uniform(-75, 75)), float(rng.uniform(-180, 180)), float(rng.uniform(0, 3000))]
    vm = rng.uniform(-30, 30, 3) * np.array([1, 1, 0.02 if wa else 0.0])
    va = rng.uniform(0, 5, 3) * np.array([1, 1, 0.1 if wa else 0.0])
    traj, imu = sim.generate_sine_velocity_motion(dt, total, lla0, vm, va, float(rng.uniform(10, 60)))
    with_inc = bool(rng.integers(0, 2))
    gkw = random_model(rng, 1e-5, 1e-6, 1e-7, with_inc)
    akw = random_model(rng, 1e-2, 1e-3, 1e-4, with_inc)
    negative_marks = int(bool(gkw.pop('_negative_marks', False))) + int(bool(akw.pop('_negative_marks', False)))
    gm, am = inertial_sensor.EstimationModel(**gkw), inertial_sensor.EstimationModel(**akw)
    gp = inertial_sensor.Parameters.from_EstimationModel(gm, rng=int(rng.integers(0, 2 ** 31)))
    ap = inertial_sensor.Parameters.from_EstimationModel(am, rng=int(rng.integers(0, 2 ** 31)))
    inc = strapdown.compute_increments_from_imu(inertial_sensor.apply_imu_parameters(imu, 'rate', gp, ap), 'rate')
    sds = dict(pos=float(10 ** rng.uniform(-1, 2)), vel=float(10 ** rng.uniform(-2, 1)), level=float(10 ** rng.uniform(-2, 0.5)),
               azimuth=float(10 ** rng.uniform(-1, 1)))
    init = sim.perturb_pva(traj.iloc[0], sim.generate_pva_error(sds['pos'], sds['vel'], sds['level'], sds['azimuth'], int(rng.integers(0, 2 ** 31))))
    I = strapdown.Integrator(init, wa)
    I.integrate(inc)
    comp = I.trajectory
    if not wa:
        traj = traj.copy()
    nominal = comp if rng.random() < 0.7 else traj
    t = np.asarray(traj.index, float)
    sensors = []
    off_grid = 0
    shared = None
    for cls in ('Position', 'NedVelocity', 'BodyVelocity'):
        if rng.random() < 0.35:
            continue
        k = int(rng.integers(1, 8))
        mode = str(rng.choice(['on', 'off', 'mixed', 'cluster']))
        on = rng.choice(t[:-1], k)
        off = rng.uniform(t[0], t[-1] - dt, k)
        if mode == 'on':
            e = on
        elif mode == 'off':
            e = off
        elif mode == 'mixed':
            e = np.r_[on, off, t[0]]
        else:
            j = int(rng.integers(0, len(t) - 2))
            e = np.r_[t[j] + dt * rng.uniform(0.05, 0.95, 3), on[:2]]
        if shared is not None and rng.random() < 0.4:
            e = np.r_[e, shared[:2]]
        if shared is not None and rng.random() < 0.3:
            # the same epochs as the other receiver logged through another arithmetic (k * 0.1 vs a decimal string): equal to ~1e-15 relative,
            # not bitwise - still two measurements, both part of the optimal estimate
            near = shared[-2:] * (1 + 2.0 ** -51)
            e = np.r_[e, near[(near > t[0]) & (near < t[-1] - dt)]]
        e = np.unique(e)
        shared = e
        off_grid += int((~np.isin(e, t)).sum())
        ref = transform.resample_state(traj, e)
        ms = int(rng.integers(0, 2 ** 31))
        if cls == 'Position':
            sd = float(10 ** rng.uniform(-1, 1))
            sensors.append(measurements.Position(sim.generate_position_measurements(ref, sd, ms), sd, [1.0, -2.0, 0.5] if rng.random() < 0.5 else None))
        elif cls == 'NedVelocity':
            sd = float(10 ** rng.uniform(-2, 0))
            sensors.append(measurements.NedVelocity(sim.generate_ned_velocity_measurements(ref, sd, ms), sd))
        else:
            sd = float(10 ** rng.uniform(-2, 0))
            sensors.append(measurements.BodyVelocity(sim.generate_body_velocity_measurements(ref, sd, ms), sd))
    # Round 6: user-defined sensors delivering a single observation per sample (see user_sensors)
    urng = np.random.Generator(np.random.PCG64(seed + 4242))
    scalar = 0
    EastSpeed, Altimeter = user_sensors()
    for ucls in (EastSpeed, Altimeter):
        if urng.random() < (0.35 if ucls is EastSpeed else 0.25 if wa else 0.0):
            e = np.unique(np.r_[urng.choice(t[:-1], int(urng.integers(1, 6))), urng.uniform(t[0], t[-1] - dt, int(urng.integers(0, 4)))])
            ref = transform.resample_state(traj, e)
            sd = float(10 ** urng.uniform(-1.5, 0.5))
            col = 'VE' if ucls is EastSpeed else 'alt'
            data = pd.DataFrame({col: ref[col].values + sd * urng.standard_normal(len(e))}, index=ref.index)
            sensors.append(ucls(data, sd))
            off_grid += int((~np.isin(e, t)).sum())
            scalar += 1
    if len(sensors) > 1 and rng.random() < 0.6:
        sensors = [sensors[i] for i in rng.permutation(len(sensors))]          # listed in any order
    # a receiver that reports a FULL covariance (correlated components), as a user-defined Measurement would: the estimator must be optimal for
    # any positive-definite R, not only sd^2 I
    correlated = 0
    for sn in sensors:
        if type(sn).__name__ in ('Position', 'NedVelocity', 'BodyVelocity') and rng.random() < 0.35:
            A_ = np.eye(3) + 0.6 * rng.uniform(-1, 1, (3, 3))
            sn.R = float(sn.R[0, 0]) * (A_ @ A_.T)
            correlated += 1
    return dict(correlated=correlated, scalar=scalar, negative_marks=negative_marks, traj=traj, nominal=nominal, comp=comp, inc=inc if with_inc else None, gkw=gkw, akw=akw, sds=sds, sensors=sensors,
                time_step=time_step, wa=wa, dt=dt, off_grid=off_grid,
                describe=dict(dt=dt, time_step=time_step, rows=len(traj), with_increments=with_inc, nominal_is_computed=nominal is comp,
                              gyro={k: (None if v is None else np.asarray(v).tolist()) for k, v in gkw.items()},
                              accel={k: (None if v is None else np.asarray(v).tolist()) for k, v in akw.items()},
                              sensors=[(type(s).__name__, len(s.data)) for s in sensors], sds=sds, with_altitude=wa))


def own_midpoint(p, q):
    from scipy.spatial.transform import Rotation, Slerp
    r = Slerp([0, 1], Rotation.from_euler('xyz', np.vstack([p[RPH].values, q[RPH].values]).astype(float), degrees=True))(0.5).as_euler('xyz', degrees=True)
    return pd.Series(np.r_[0.5 * (p[LLA].values + q[LLA].values), 0.5 * (p[VEL].values + q[VEL].values), r].astype(float), index=LLA + VEL + RPH)


def run_case(case):
    from pyins import filters, inertial_sensor, error_model, earth
    wa = case['cls'] == '3d'
    C = build(case['seed'], wa)
    obs = {}
    out = []
    gm, am = inertial_sensor.EstimationModel(**C['gkw']), inertial_sensor.EstimationModel(**C['akw'])
    sd = C['sds']
    events.start(keep_arrays=True)
    try:
        res = filters.run_feedforward_filter(C['nominal'], C['comp'], sd['pos'], sd['vel'], sd['level'], sd['azimuth'], gm, am,
                                             measurements=C['sensors'], increments=C['inc'], time_step=C['time_step'], with_altitude=wa)
    except Exception as e:
        import traceback
        events.stop()
        return dict(violations=[vio('exception', f'{type(e).__name__}: {e}', tb=traceback.format_exc()[-1200:], config=C['describe'])], obs=obs)
    ev = events.stop()
    obs['runs'] = 1
    grid = np.asarray(res['trajectory'].index, float)
    K = len(grid)
    obs['grid_points'] = K
    # ---------------------------------------------------------------- the oracle's own model
    em = error_model.InsErrorModel(wa)
    g, a = inertial_sensor.EstimationModel(**C['gkw']), inertial_sensor.EstimationModel(**C['akw'])
    ni, ng, na = em.n_states, g.n_states, a.n_states
    n = ni + ng + na
    nominal, comp, inc = C['nominal'], C['comp'], C['inc']
    sm_events = [e for e in ev if e['kind'] == 'system_matrices']
    Phis, Qs = [], []
    for k in range(K - 1):
        t0, t1 = grid[k], grid[k + 1]
        pm = own_midpoint(nominal.loc[t0], nominal.loc[t1])
        if k < len(sm_events):
            rec = sm_events[k]['pva']
            d = np.abs(rec[LLA + VEL + RPH].values.astype(float) - pm.values)
            d[6:] = np.abs((d[6:] + 180) % 360 - 180)
            obs['midpoint_crosschecked'] = obs.get('midpoint_crosschecked', 0) + 1
            if d.max() > 1e-8:
                out.append(vio('linearisation_point', f'step {t0}->{t1}: the filter linearised about {rec.values.tolist()}, mid-point of the nominal rows is '
                               f'{pm.values.tolist()}'))
                break
        Fii, Fig, Fia = em.system_matrices(pm)
        if inc is not None:
            b = inc[(inc.index > t0) & (inc.index <= t1)]
            gavg = b[TH].sum(axis=0).values / (t1 - t0)
            aavg = b[DV].sum(axis=0).values / (t1 - t0)
        else:
            gavg = aavg = None
        Hg, Ha = g.output_matrix(gavg), a.output_matrix(aavg)
        F = np.zeros((n, n))
        F[:ni, :ni] = Fii
        F[:ni, ni:ni + ng] = Fig @ Hg
        F[:ni, ni + ng:] = Fia @ Ha
        F[ni:ni + ng, ni:ni + ng] = g.F
        F[ni + ng:, ni + ng:] = a.F
        Bw = np.zeros((n, g.n_output_noises + a.n_output_noises + g.n_noises + a.n_noises))
        c = 0
        Bw[:ni, c:c + g.n_output_noises] = (Fig @ g.J) * g.v
        c += g.n_output_noises
        Bw[:ni, c:c + a.n_output_noises] = (Fia @ a.J) * a.v
        c += a.n_output_noises
        Bw[ni:ni + ng, c:c + g.n_noises] = g.G * g.q
        c += g.n_noises
        Bw[ni + ng:, c:c + a.n_noises] = a.G * a.q
        Phi, Qd = batch_gm.van_loan(F, Bw @ Bw.T, t1 - t0)
        Phis.append(Phi)
        Qs.append(Qd)
    if out:
        return dict(violations=out, obs=obs, nontrivial=True)
    Tio = em.transform_to_internal(nominal.iloc[0])
    P0 = np.zeros((n, n))
    P0[:ni, :ni] = Tio @ np.diag(np.array([sd['pos']] * 3 + [sd['vel']] * 3 + [sd['level']] * 2 + [sd['azimuth']]) ** 2) @ Tio.T
    P0[ni:ni + ng, ni:ni + ng] = g.P
    P0[ni + ng:, ni + ng:] = a.P
    meas = []
    names = []
    for e in ev:
        if e['kind'] == 'compute_matrices' and e['hit']:
            k = int(np.searchsorted(grid, e['time'], side='right') - 1)
            H = np.zeros((len(e['z']), n))
            H[:, :ni] = e['H']
            meas.append(dict(k=k, z=e['z'], H=H, R=e['R']))
            names.append(e['cls'])
    obs['measurement_blocks'] = len(meas)
    # "for any measurement set": the optimal estimate conditions on EVERY sample in [first, last grid time) - each sensor's processed stamps
    # must be exactly its samples there (a sample left out leaves a smaller, self-consistent problem the comparison below cannot see)
    for sn in C['sensors']:
        st_ = np.asarray(sn.data.index, float)
        t_end = float(C['nominal'].index[-1])
        inside = np.sort(st_[(st_ >= grid[0]) & (st_ < t_end)])
        got = np.sort(np.array([e['time'] for e in ev if e['kind'] == 'compute_matrices' and e['hit'] and e['cls'] == type(sn).__name__], float))
        obs['samples_accounted'] = obs.get('samples_accounted', 0) + len(inside)
        if len(got) != len(inside) or not np.array_equal(got, inside):
            lost = [float(x) for x in inside if x not in set(got.tolist())][:4]
            out.append(vio('measurement_not_in_estimate', f'{type(sn).__name__}: {len(inside)} samples in [{grid[0]}, {t_end}) but {len(got)} entered the estimate; '
                           f'left out {lost} (first grid time {grid[0]!r})', config=C['describe']))
    if out:
        return dict(violations=out, obs=obs, nontrivial=True)
    xs, Ps, innov, cond = batch_gm.solve(P0, Phis, Qs, meas)
    obs['max_log10_cond_x10'] = int(10 * np.log10(max(cond, 1)))
    if cond > 1e10:
        obs['ill_conditioned_not_decided'] = 1
        return dict(violations=out, obs=obs, nontrivial=False, sample=dict(config=C['describe'], cond=cond))
    tol = TOL * max(1.0, cond / 1e9)
    # ---------------------------------------------------------------- comparison with every result field
    T = em.transform_to_output(nominal.loc[grid])
    cov_out = np.einsum('kij,kjl,kil->ki', T, Ps[:, :ni, :ni], T)
    sd_o = np.sqrt(np.maximum(cov_out, 0))
    sd_f = res['trajectory_sd'].values.astype(float)
    cfg = C['describe']
    obs['sd_compared'] = 1
    scale = np.maximum(sd_o, 1e-300)
    rel = np.abs(sd_f - sd_o) / np.where(sd_o > 0, scale, 1.0)
    rel = np.where(sd_o > 1e-12 * sd_o.max(axis=0, keepdims=True) + 1e-300, rel, np.abs(sd_f - sd_o))
    obs['max_sd_rel_x1e9'] = int(1e9 * min(rel.max(), 1.0))
    if rel.max() > tol:
        i, j = np.unravel_index(np.argmax(rel), rel.shape)
        out.append(vio('trajectory_sd', f'trajectory_sd[{res["trajectory_sd"].columns[j]}] at t={grid[i]}: filter {sd_f[i, j]:.9e}, one-shot estimator {sd_o[i, j]:.9e} '
                       f'(rel {rel[i, j]:.2e} > {tol:.1e})', config=cfg))
    for name, blk, mdl in (('gyro', slice(ni, ni + ng), g), ('accel', slice(ni + ng, n), a)):
        if mdl.n_states == 0:
            continue
        sdm = np.sqrt(np.maximum(np.einsum('kii->ki', Ps[:, blk, blk]), 0))
        sdf = res[name + '_sd'].values.astype(float)
        est = res[name].values.astype(float)
        obs['estimates_compared'] = obs.get('estimates_compared', 0) + 1
        if list(res[name].columns) != list(mdl.states):
            out.append(vio('estimate_columns', f'{name} columns {list(res[name].columns)} != states {mdl.states}', config=cfg))
            continue
        r1 = np.abs(sdf - sdm) / np.maximum(sdm, 1e-300)
        r2 = np.abs(est - xs[:, blk]) / np.maximum(sdm, 1e-300)
        obs['max_est_err_sd_x1e9'] = max(obs.get('max_est_err_sd_x1e9', 0), int(1e9 * min(r2.max(), 1.0)))
        if r1.max() > tol:
            i, j = np.unravel_index(np.argmax(r1), r1.shape)
            out.append(vio('sensor_sd', f'{name}_sd[{mdl.states[j]}] at t={grid[i]}: filter {sdf[i, j]:.9e}, one-shot {sdm[i, j]:.9e} (rel {r1[i, j]:.2e})', config=cfg))
        if r2.max() > tol:
            i, j = np.unravel_index(np.argmax(r2), r2.shape)
            out.append(vio('sensor_estimate', f'{name}[{mdl.states[j]}] at t={grid[i]}: filter {est[i, j]:.9e}, one-shot {xs[i, blk][j]:.9e} '
                           f'({r2[i, j]:.2e} sd)', config=cfg))
    # compensated trajectory
    en = np.einsum('kij,kj->ki', T, xs[:, :ni])
    cg = comp.loc[grid]
    ng_ = nominal.loc[grid]
    rn, _, rp = earth.principal_radii(ng_.lat.values, ng_.alt.values)
    exp = cg.copy()
    exp['lat'] -= np.rad2deg(en[:, 0] / rn)
    exp['lon'] -= np.rad2deg(en[:, 1] / rp)
    exp['alt'] += en[:, 2]
    exp[VEL] -= en[:, 3:6]
    exp[RPH] -= en[:, 6:9]
    got = res['trajectory']
    obs['trajectory_compared'] = 1
    if list(got.columns) != list(cg.columns):
        out.append(vio('trajectory_columns', f'{list(got.columns)}', config=cfg))
    else:
        d = got.values.astype(float) - exp.values.astype(float)
        d[:, 0] *= np.deg2rad(1) * rn
        d[:, 1] *= np.deg2rad(1) * rp
        sdd = np.where(sd_o > 0, sd_o, 1.0)
        r3 = np.abs(d) / sdd
        r3[:, :3] = np.maximum(r3[:, :3] - 1e-9 / sdd[:, :3], 0)      # rounding of degrees in metres
        obs['max_traj_err_sd_x1e9'] = int(1e9 * min(r3.max(), 1.0))
        if r3.max() > tol:
            i, j = np.unravel_index(np.argmax(r3), r3.shape)
            out.append(vio('compensated_trajectory', f'trajectory[{got.columns[j]}] at t={grid[i]}: filter {got.values[i, j]!r}, computed minus one-shot error estimate '
                           f'{exp.values[i, j]!r} ({r3[i, j]:.2e} sd)', config=cfg))
    # innovations, per class in processing order
    count = {}
    worst = 0.0
    for nm, nu in zip(names, innov):
        idx = count.get(nm, 0)
        count[nm] = idx + 1
        tab = res['innovations'][nm]
        if idx >= len(tab):
            out.append(vio('innovation_rows', f'{nm}: fewer innovation rows than processed measurements', config=cfg))
            break
        got_nu = tab.values[idx].astype(float)
        e = np.abs(got_nu - nu).max() / (1 + np.abs(nu).max())
        worst = max(worst, e)
        obs['innovations_compared'] = obs.get('innovations_compared', 0) + 1
        if e > tol:
            out.append(vio('innovation', f'{nm} row {idx}: normalised innovation {got_nu.tolist()} vs one-shot predictive whitening {nu.tolist()}', config=cfg))
            break
    obs['max_innov_err_x1e9'] = int(1e9 * min(worst, 1.0))
    obs['with_walk'] = int(g.n_noises + a.n_noises > 0)
    obs['with_scale_misal'] = int(g.scale_misal_modelled or a.scale_misal_modelled)
    obs['two_d'] = int(not wa)
    obs['sensors_with_correlated_noise'] = C['correlated']
    obs['user_defined_scalar_sensors'] = C['scalar']
    obs['models_with_negative_disable_marks'] = C['negative_marks']
    obs['off_grid_epochs'] = C['off_grid']
    return dict(violations=out[:8], obs=obs, nontrivial=True, sample=dict(config=cfg, grid_points=K, states=n, measurement_blocks=len(meas), cond=cond))
