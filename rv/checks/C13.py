"""C13 - no-altitude mode keeps altitude frozen and vertical velocity zero.

Trace monitors with a shadow variable (the altitude most recently supplied):
  * integrator histories (driver of C02) in 2-D mode with large vertical specific
    force and non-zero vertical velocity in the supplied / overwritten states:
    every row returned by integrate / predict has VD == 0 and alt == alt_ref bitwise;
  * real feedback-filter runs in 2-D mode on seeded schedules: alt_ref follows the
    recorded set_pva events, every trajectory row obeys the same rule; both filters
    report exactly zero down / VD standard deviation; position and NED-velocity
    measurement models return two rows.
"""
import numpy as np
import pandas as pd

from rv.core import vio
from rv.instrument import events, patch
from rv.workloads import integrator_histories as H
from rv.workloads import schedules

ID = 'C13'
RULE = ('(a) seeded 2-D integrator histories: chunks / predict / set_pva, initial capacity 2..64, vertical specific force up to '
        '+-3 g with large tilt, initial and overwritten states with VD up to +-50 m/s; (b) seeded 2-D filter schedules (as C09 / '
        'C10) with an initial state whose VD is non-zero; non-trivial = non-zero supplied VD or non-level specific force or a '
        'filter run (the existing 2-D tests are level and drop the affected columns); distinct = distinct seeds'
        ' Round 3: measurement objects whose data columns are in another order, with the vertical measured component far off (499 m / 777 m/s): the 2-D residual must not contain it.'
        ' Round 5: with_altitude=False given as numpy.False_ in every other run.')
ASSUMPTIONS = ['zero means == 0.0 (either sign of zero); altitude equality is bitwise']
REQUIRED_OBS = ['vertical_row_semantics_checked', 'coarse_initial_position_runs', 'twoD_rows_checked', 'set_pva_calls', 'predict_calls', 'filter_rows_checked', 'sd_tables_checked',
                'measurement_rows_checked', 'feedback_runs', 'feedforward_runs']
REQUIRED_CLASSES = {'all': ['history', 'feedback', 'feedforward', 'measurement_history']}


def setup():
    patch.import_all()
    H.install_kernel_contract()
    events.install()
    schedules.fine_truth()


def cases(seed, tier):
    n = 900 if tier == 'quick' else 24000
    nf = 60 if tier == 'quick' else 1500
    out = []
    for i in range(n):
        out.append(dict(seed=int(seed) * 1000003 + i, cls='history', with_altitude=False, initial_size=2 + (i * 7) % 63,
                        n_inc=20 + (i * 37) % 120, cost=1))
    for i in range(nf):
        out.append(dict(seed=int(seed) * 1000003 + 700000 + i, cls='feedback' if i % 2 == 0 else 'feedforward', cost=12))
    nm = 40 if tier == 'quick' else 1500
    for i in range(nm):
        out.append(dict(seed=int(seed) * 1000003 + 900000 + i, cls='measurement_history', cost=1))
    return out


def run_measurement_history(case):
    """The same measurement objects used under 3-D and 2-D error models in random order: the vertical row is dropped in 2-D whatever came before."""
    from pyins import measurements, sim
    from pyins.error_model import InsErrorModel
    rng = np.random.Generator(np.random.PCG64(case['seed']))
    tt = np.arange(5) * 1.0
    traj = schedules.truth_at(3.0 + tt)
    traj.index = pd.Index(tt, name='time')
    traj['alt'] += rng.uniform(-300, 300)
    lever = [1.0, -0.5, 0.3]
    objs = [measurements.Position(sim.generate_position_measurements(traj, 1.0, 1), 1.0), measurements.Position(sim.generate_position_measurements(traj, 1.0, 1), 1.0, lever),
            measurements.NedVelocity(sim.generate_ned_velocity_measurements(traj, 0.3, 1), 0.3), measurements.NedVelocity(sim.generate_ned_velocity_measurements(traj, 0.3, 1), 0.3, lever)]
    # velocity fixes whose vertical component is far off (777 m/s), also with the labelled columns in another order: the rows kept in
    # 2-D must be the north / east ones (a dropped "last" row is only the vertical one if the rows are in N, E, D order)
    vd = sim.generate_ned_velocity_measurements(traj, 0.3, 1)
    vd['VD'] += 777.0
    pd_ = sim.generate_position_measurements(traj, 1.0, 1)
    objs += [measurements.NedVelocity(vd, 0.3), measurements.NedVelocity(vd[['VE', 'VD', 'VN']], 0.3, lever), measurements.NedVelocity(vd[['VD', 'VN', 'VE']], 0.3),
             measurements.Position(pd_[['alt', 'lon', 'lat']], 1.0), measurements.Position(pd_[['lon', 'alt', 'lat']], 1.0, lever)]
    ems = {True: InsErrorModel(np.True_ if case['seed'] % 2 else True), False: InsErrorModel(np.False_ if case['seed'] % 2 else False)}      # bool or numpy.bool_
    out = []
    obs = {}
    pv = traj.iloc[2].copy()
    pv['alt'] += 499.0          # a large vertical separation: a vertical row that is not dropped is obvious
    for step in range(24):
        o = objs[int(rng.integers(0, len(objs)))]
        wa = bool(rng.integers(0, 2))
        z, H, R = o.compute_matrices(tt[2], pv, ems[wa])
        obs['measurement_rows_checked'] = obs.get('measurement_rows_checked', 0) + 1
        want = 3 if wa else 2
        if len(np.asarray(z)) != want or np.asarray(H).shape != (want, ems[wa].n_states) or np.asarray(R).shape != (want, want):
            out.append(vio('measurement_rows', f'{type(o).__name__} (used before under the other altitude mode) returned z{np.asarray(z).shape} H{np.asarray(H).shape} '
                           f'R{np.asarray(R).shape} with with_altitude={wa} at step {step}, expected {want} rows'))
            break
        if not wa and np.abs(np.asarray(z, float)).max() > 100.0:
            out.append(vio('vertical_row_kept', f'{type(o).__name__} (data columns {list(o.data.columns)}): 2-D residual {np.asarray(z, float).tolist()} contains the vertical '
                           f'separation (altitude off by 499 m / VD off by 777 m/s): the row that was dropped is not the vertical one'))
            break
        obs['vertical_row_semantics_checked'] = obs.get('vertical_row_semantics_checked', 0) + int(not wa)
    return dict(violations=out, obs=obs, nontrivial=True, sample=dict(cls='measurement_history', steps=16))


def same(a, b):
    return np.array_equal(np.asarray(a, float).view(np.uint64), np.asarray(b, float).view(np.uint64))


def run_case(case):
    H.OBS.clear()
    if case['cls'] == 'measurement_history':
        return run_measurement_history(case)
    if case['cls'] == 'history':
        out, sample = H.run_history(case, two_d_monitors=True)
        return dict(violations=out, obs=dict(H.OBS), nontrivial=True, sample=sample)
    from pyins import filters, sim
    out = []
    obs = {}
    # find a schedule (deterministically from the seed); force the 2-D mode
    S = schedules.build(case['seed'])
    rng = np.random.Generator(np.random.PCG64(case['seed'] + 3))
    traj = S['traj']
    err = pd.Series(S['init_err'], index=['north', 'east', 'down', 'VN', 'VE', 'VD', 'roll', 'pitch', 'heading'])
    coarse = case['cls'] == 'feedback' and case['seed'] % 3 == 0
    pos_sd = 5.0
    if coarse:
        # a coarse initial position (kilometres) and at least one position fix: the first correction is large
        err[['north', 'east']] = rng.uniform(1500, 4000, 2) * rng.choice([-1, 1], 2)
        pos_sd = 3000.0
        from pyins import measurements
        t_fix = S['times'][np.unique(np.clip(np.linspace(1, len(S['times']) - 2, 4).astype(int), 0, len(S['times']) - 1))]
        fix = measurements.Position(sim.generate_position_measurements(schedules.truth_at(t_fix), 1.0, 3), 1.0)
        S['measurements'] = [m for m in (S['measurements'] or []) if type(m).__name__ != 'Position'] + [fix]
        S['describe'] = dict(S['describe'], coarse_initial_position=err[['north', 'east']].tolist())
        obs['coarse_initial_position_runs'] = 1
    initial = sim.perturb_pva(traj.iloc[0], err)
    initial['VD'] = float(rng.uniform(-5, 5))            # the caller's state need not be level
    events.start()
    try:
        if case['cls'] == 'feedback':
            r = filters.run_feedback_filter(initial, pos_sd, 1, 0.5, 1.0, S['increments'], S['gyro_model'], S['accel_model'],
                                            measurements=S['measurements'], time_step=S['time_step'], with_altitude=(np.False_ if case['seed'] % 2 else False))
            obs['feedback_runs'] = 1
        else:
            comp = traj.copy()
            comp['lat'] += 1e-5
            comp['VN'] += 0.2
            comp['heading'] += 0.2
            gm, am = S['gyro_model'], S['accel_model']
            r = filters.run_feedforward_filter(traj, comp, 5, 1, 0.5, 1.0, gm, am, measurements=S['measurements'],
                                               increments=S['increments'], time_step=S['time_step'], with_altitude=(np.False_ if case['seed'] % 2 else False))
            obs['feedforward_runs'] = 1
    except Exception as e:
        import traceback
        ev = events.stop()
        return dict(violations=[vio('exception', f'{type(e).__name__}: {e}', tb=traceback.format_exc()[-1200:],
                                    schedule=S['describe'])], obs=obs, nontrivial=True)
    ev = events.stop()
    sd = r['trajectory_sd']
    obs['sd_tables_checked'] = 1
    for c in ('down', 'VD'):
        if np.any(sd[c].values != 0.0):
            out.append(vio('sd_not_zero', f'{case["cls"]}: trajectory_sd[{c}] is not exactly zero in no-altitude mode: '
                           f'{sd[c].values[sd[c].values != 0][:3].tolist()}'))
    for e in ev:
        if e['kind'] == 'compute_matrices' and e['hit']:
            obs['measurement_rows_checked'] = obs.get('measurement_rows_checked', 0) + 1
            want = 3 if e['cls'] == 'BodyVelocity' else 2
            if e['rows'] != want:
                out.append(vio('measurement_rows', f'{e["cls"]} returned {e["rows"]} rows in no-altitude mode, expected {want}'))
                break
    if case['cls'] == 'feedback':
        tr = r['trajectory']
        # shadow altitude: constructor, then every recorded set_pva
        alt_ref = float(initial.alt)
        sets = [(e['time'], e['alt'], e['VD']) for e in ev if e['kind'] == 'set_pva']
        obs['set_pva_calls'] = len(sets)
        obs['predict_calls'] = sum(e['kind'] == 'predict' for e in ev)
        for e in ev:
            if e['kind'] == 'predict':
                if e['VD'] != 0.0:
                    out.append(vio('twoD_vertical_velocity', f'predict at {e["base_time"]}: VD = {e["VD"]!r}'))
                    break
        times = np.asarray(tr.index, float)
        alt = tr['alt'].values.astype(float)
        vd = tr['VD'].values.astype(float)
        obs['filter_rows_checked'] = len(tr)
        obs['twoD_rows_checked'] = len(tr)
        if np.any(vd != 0.0):
            k = int(np.argmax(vd != 0))
            out.append(vio('twoD_vertical_velocity', f'feedback trajectory row at t={times[k]} has VD = {vd[k]!r}'))
        # altitude of a row = altitude supplied by the latest set_pva at a time <= the row's time (else the initial one)
        ref = np.full(len(tr), alt_ref)
        for t_set, a_set, _ in sets:
            ref[times >= t_set] = a_set
        if not same(alt, ref):
            k = int(np.argmax(alt.view(np.uint64) != ref.view(np.uint64)))
            out.append(vio('twoD_altitude', f'feedback trajectory row at t={times[k]} has altitude {alt[k]!r}, most recently supplied '
                           f'altitude is {ref[k]!r} (initial {alt_ref!r}, {len(sets)} overwrites)'))
        if any(a != alt_ref for _, a, _ in sets):
            out.append(vio('twoD_altitude_supplied', f'the filter itself overwrote the altitude: {[a for _, a, _ in sets if a != alt_ref][:3]} '
                           f'vs initial {alt_ref!r}'))
    else:
        obs['filter_rows_checked'] = len(r['trajectory'])
        obs['twoD_rows_checked'] = 0
    for v in out:
        v.setdefault('detail', {})['schedule'] = S['describe']
    return dict(violations=out, obs=obs, nontrivial=True, sample=dict(cls=case['cls'], schedule=S['describe']))


def classify(case, v):
    return None
