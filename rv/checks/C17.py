"""C17 - attitude representations and rotation primitives are consistent.

Monitors: postconditions on the real mat_from_rph / mat_to_rph (own Rz Ry Rx at 40
digits, orthonormality, physical sign probes, round trips with kappa = 1/cos(pitch)),
on the compiled mat_from_rotvec (40-digit Rodrigues; dense sampling on both sides of
the small-angle branch), and on the attitude block of transform_to_output
(Richardson central differences of the real Euler extraction under a left platform
rotation).  A case is a batch of one input class.
"""
import numpy as np

from rv.core import vio
from rv.instrument import patch
from rv.oracles import hp_linalg as hp

ID = 'C17'
RULE = ('batches of seeded random inputs per class: Euler triples with roll/heading in [-360,360] and '
        '|pitch|<90 (generic, near-singular 85..89.9, axis-aligned specials, stacked vs single), rotation '
        'vectors log-uniform in [1e-12, pi] plus a dense cluster on both sides of |rv|^2 = 1e-6 and exact '
        'zero / pi; non-trivial = not axis-aligned and not one of ~20 sigma-30-degree triples; distinct = '
        'distinct inputs'
        ' Round 4: the attitude block of the output transform up to a thousandth of a degree from pitch +-90 (finite-difference step and tolerance scaled with cos(pitch)).'
        ' Round 5: stacks whose first one to three rows are exactly zero.')
ASSUMPTIONS = ['mpmath at 40 digits is exact relative to float64',
               'round-trip tolerance scales with 1/cos(pitch) (conditioning of Euler extraction)']
REQUIRED_OBS = ['rotvec_near_half_turn', 'stacks_starting_with_zero_rows', 'phi_block_near_singular', 'euler_matrix_mp', 'euler_matrix_float', 'sign_probes', 'roundtrip', 'rotvec_mp',
                'rotvec_near_branch', 'phi_block_derivative', 'stacked_vs_single']
REQUIRED_CLASSES = {'all': ['euler_generic', 'euler_steep', 'euler_special', 'rotvec_log', 'rotvec_branch',
                            'phi_block']}
EPS = np.finfo(float).eps
D2R = np.pi / 180


def setup():
    patch.import_all()
    from pyins import transform, _numba_integrate, error_model
    patch.wrap(transform, 'mat_from_rph', counter='calls_mat_from_rph')
    patch.wrap(transform, 'mat_to_rph', counter='calls_mat_to_rph')
    m = np.empty((3, 3))
    _numba_integrate.mat_from_rotvec(np.array([0.1, 0.2, 0.3]), m)


def own_euler(rph):
    r, p, h = (np.asarray(rph, float) * D2R).T
    cr, sr, cp, sp, ch, sh = np.cos(r), np.sin(r), np.cos(p), np.sin(p), np.cos(h), np.sin(h)
    M = np.empty(r.shape + (3, 3))
    M[..., 0, 0] = ch * cp
    M[..., 0, 1] = ch * sp * sr - sh * cr
    M[..., 0, 2] = ch * sp * cr + sh * sr
    M[..., 1, 0] = sh * cp
    M[..., 1, 1] = sh * sp * sr + ch * cr
    M[..., 1, 2] = sh * sp * cr - ch * sr
    M[..., 2, 0] = -sp
    M[..., 2, 1] = cp * sr
    M[..., 2, 2] = cp * cr
    return M


def cases(seed, tier):
    k = 1 if tier == 'quick' else 12
    out = []
    classes = [('euler_generic', 3000), ('euler_steep', 2000), ('euler_special', 400),
               ('rotvec_log', 700), ('rotvec_branch', 700), ('phi_block', 1500)]
    for rep in range(3 * k):
        for i, (c, n) in enumerate(classes):
            out.append(dict(seed=int(seed) * 7919 + 53 * rep + i, cls=c, n=n, cost=n * (8 if 'rotvec' in c else 1)))
    return out


def wrap180(d):
    return (d + 180.0) % 360.0 - 180.0


def run_case(case):
    from pyins import transform, _numba_integrate
    from pyins.error_model import InsErrorModel
    import pandas as pd
    rng = np.random.Generator(np.random.PCG64(case['seed']))
    n = case['n']
    cls = case['cls']
    out = []
    obs = {}

    def bump(k, m=1):
        obs[k] = obs.get(k, 0) + int(m)

    def fail(kind, msg):
        if len(out) < 20:
            out.append(vio(kind, msg))

    if cls.startswith('euler'):
        roll = rng.uniform(-360, 360, n)
        head = rng.uniform(-360, 360, n)
        pitch = rng.uniform(-85, 85, n)
        if cls == 'euler_steep':
            pitch = rng.choice([-1, 1], n) * rng.uniform(85, 89.9, n)
        if cls == 'euler_special':
            roll = rng.choice([0.0, 90.0, -90.0, 180.0, -180.0, 360.0, 270.0, 1e-9], n)
            head = rng.choice([0.0, 90.0, -90.0, 180.0, -180.0, 360.0, -360.0, 270.0], n)
            pitch = rng.choice([0.0, 45.0, -45.0, 89.0, -89.0, 1e-9], n)
        rph = np.column_stack([roll, pitch, head])
        if rng.random() < 0.35:
            # a record that starts level and pointing north (exactly zero angles in its first rows) - what the FIRST rows hold must not matter to the others
            rph[:int(rng.integers(1, 4))] = 0.0
            bump('stacks_starting_with_zero_rows')
        M = transform.mat_from_rph(rph)
        ref = own_euler(rph)
        e = np.abs(M - ref).max(axis=(1, 2))
        bump('euler_matrix_float', n)
        obs['max_euler_matrix_err'] = float(e.max())
        if (e > 16 * EPS).any():
            i = int(np.argmax(e))
            fail('euler_matrix', f'mat_from_rph differs from Rz(h)Ry(p)Rx(r) by {e[i]:.3e} at rph={rph[i].tolist()}')
        for i in range(0, n, max(1, n // 40)):
            Mm = hp.euler_matrix(*rph[i])
            bump('euler_matrix_mp')
            # argument reduction of 360-degree multiples costs a few ulp of the angle
            if np.abs(M[i] - Mm).max() > 8 * EPS * (1 + np.abs(rph[i]).max() * D2R):
                fail('euler_matrix_mp', f'mat_from_rph differs from 40-digit Rz Ry Rx by {np.abs(M[i] - Mm).max():.3e} '
                     f'at rph={rph[i].tolist()}')
        I = np.einsum('nij,nkj->nik', M, M)
        if np.abs(I - np.eye(3)).max() > 16 * EPS:
            fail('orthonormal', f'M M^T - I = {np.abs(I - np.eye(3)).max():.3e}')
        det = np.linalg.det(M)
        if np.abs(det - 1).max() > 16 * EPS:
            fail('proper_rotation', f'det = {det[np.argmax(np.abs(det - 1))]!r}')
        # physical sign conventions, derived from the matrix itself
        r_, p_, h_ = rph.T * D2R
        nose = np.stack([np.cos(h_) * np.cos(p_), np.sin(h_) * np.cos(p_), -np.sin(p_)], axis=1)
        wing_d = np.sin(r_) * np.cos(p_)
        bump('sign_probes', n)
        if np.abs(M[:, :, 0] - nose).max() > 8 * EPS:
            fail('nose_vector', 'body x axis in NED is not [cos h cos p, sin h cos p, -sin p] '
                 '(heading north->east, pitch nose-up)')
        if np.abs(M[:, 2, 1] - wing_d).max() > 8 * EPS:
            fail('right_wing_down', 'D component of the body y axis is not sin(roll) cos(pitch)')
        # round trip angles -> matrix -> angles (mod 360), kappa = 1/cos(pitch)
        back = transform.mat_to_rph(M)
        d = np.abs(wrap180(back - rph))
        tol = 64 * EPS / D2R / np.cos(p_) ** 2 + 1e-13
        bump('roundtrip', n)
        obs['max_roundtrip_ratio'] = float((d.max(axis=1) / tol).max())
        if (d.max(axis=1) > tol).any():
            i = int(np.argmax(d.max(axis=1) / tol))
            fail('roundtrip_angles', f'mat_to_rph(mat_from_rph(x)) - x = {d[i].tolist()} deg (tol {tol[i]:.2e}) at '
                 f'rph={rph[i].tolist()}')
        if np.abs(back[:, 1]).max() > 90 or np.abs(back[:, [0, 2]]).max() > 180 + 1e-9:
            fail('angle_range', 'mat_to_rph returned angles outside roll,heading in [-180,180], pitch in [-90,90]')
        # matrix -> angles -> matrix
        M2 = transform.mat_from_rph(back)
        e = np.abs(M2 - M).max(axis=(1, 2))
        if (e > 32 * EPS).any():
            i = int(np.argmax(e))
            fail('roundtrip_matrix', f'mat_from_rph(mat_to_rph(M)) - M = {e[i]:.3e} at rph={rph[i].tolist()}')
        # stacked vs single
        for i in range(0, n, max(1, n // 60)):
            Ms = transform.mat_from_rph(rph[i])
            bs = transform.mat_to_rph(M[i])
            bump('stacked_vs_single')
            if Ms.shape != (3, 3) or np.abs(Ms - M[i]).max() > 4 * EPS:
                fail('stacked_vs_single', f'mat_from_rph single vs stacked differ at {rph[i].tolist()}')
            if bs.shape != (3,) or np.abs(wrap180(bs - back[i])).max() > 64 * EPS / D2R / np.cos(p_[i]) ** 2 + 1e-13:
                fail('stacked_vs_single', f'mat_to_rph single vs stacked differ at {rph[i].tolist()}')
        special = np.isin(rph % 90, [0.0]).all(axis=1)
        return dict(violations=out, obs=obs, nontrivial=bool((~special).any()), evals=n,
                    nontrivial_count=int((~special).sum()),
                    sample=dict(cls=cls, first=rph[0].tolist(), maxima={k: v for k, v in obs.items() if k.startswith('max_')}))

    if cls.startswith('rotvec'):
        if cls == 'rotvec_log':
            norm = 10 ** rng.uniform(-12, np.log10(np.pi), n)
            norm[:4] = [0.0, np.pi, 1e-3, np.nextafter(1e-3, 1)]
            # Round 6: dense on both sides of the half turn and its odd multiples (1 + cos -> 0 there: a "cancellation-free" rewrite of
            # (1 - cos) / |rv|^2 as k1^2 / (1 + cos) moves the 0/0 from |rv| = 0 to |rv| = pi), and whole turns
            k_ = n // 4
            mult = rng.choice([1.0, 1.0, 1.0, 3.0, 5.0, 2.0], k_)
            norm[10:10 + k_] = (mult * np.pi * (1 + rng.choice([-1, 1], k_) * 10 ** rng.uniform(-16, -1, k_)))[:max(0, min(k_, n - 10))]
            norm[4:10] = [np.nextafter(np.pi, 0), np.nextafter(np.pi, 4), np.pi * (1 - 1e-9), np.pi * (1 + 1e-9), 3 * np.pi, 2 * np.pi]
        else:
            # dense on both sides of norm^2 = 1e-6
            norm = 1e-3 * (1 + rng.choice([-1, 1], n) * 10 ** rng.uniform(-16, -0.3, n))
        u = rng.standard_normal((n, 3))
        u /= np.linalg.norm(u, axis=1)[:, None]
        if cls == 'rotvec_log':
            u[4:10] = np.eye(3)[[0, 1, 2, 0, 1, 2]] * np.array([1, 1, 1, -1, -1, -1])[:, None]
        rv = u * norm[:, None]
        mat = np.empty((3, 3))
        worst = 0.0
        worst_skew = 0.0
        below = above = 0
        for i in range(n):
            mat[:] = np.nan
            try:
                _numba_integrate.mat_from_rotvec(rv[i], mat)
            except Exception as ex:          # the function under test refusing a legitimate rotation vector is a verdict, not a harness error
                fail('exception', f'mat_from_rotvec raised {type(ex).__name__}: {ex} at rv={rv[i].tolist()} (|rv|={float(np.linalg.norm(rv[i])):.17g})')
                continue
            ref = hp.rotvec_matrix(rv[i])
            e = np.abs(mat - ref).max()
            near_pi = abs((float(np.linalg.norm(rv[i])) / np.pi) % 2 - 1) < 0.2
            if near_pi:
                bump('rotvec_near_half_turn')
            worst = max(worst, e)
            n2 = float(np.sum(rv[i] ** 2))
            below += n2 <= 1e-6
            above += n2 > 1e-6
            bump('rotvec_mp')
            if cls == 'rotvec_branch':
                bump('rotvec_near_branch')
            if not (e <= 1.5e-15 * max(1.0, float(np.linalg.norm(rv[i])) / np.pi)):
                fail('rotvec_expmap', f'mat_from_rotvec differs from exp map by {e:.3e} at rv={rv[i].tolist()} '
                     f'(|rv|^2={n2:.17g})')
            # the skew part k1*[rv]x carries relative accuracy (no cancellation on either branch)
            sk = 0.5 * np.abs((mat - mat.T) - (ref - ref.T)).max()
            nr = float(np.sqrt(n2))
            if nr > 0:
                worst_skew = max(worst_skew, sk / (EPS * nr))
            if not (sk <= 8 * EPS * max(nr, min(nr, np.pi) ** 2 / np.pi) + 1e-300):
                fail('rotvec_skew_part', f'skew part of mat_from_rotvec off by {sk / (EPS * max(nr, 1e-300)):.1f} ulp of |rv| '
                     f'at rv={rv[i].tolist()} (|rv|^2={n2:.17g})')
        obs['max_rotvec_err'] = worst
        obs['max_rotvec_skew_ulp'] = worst_skew
        obs['branch_small_side'] = int(below)
        obs['branch_large_side'] = int(above)
        return dict(violations=out, obs=obs, nontrivial=True, evals=n, nontrivial_count=n,
                    sample=dict(cls=cls, first=rv[0].tolist(), max_err=worst, small_side=int(below), large_side=int(above)))

    if cls == 'phi_block':
        from scipy.spatial.transform import Rotation
        roll = rng.uniform(-180, 180, n)
        head = rng.uniform(-180, 180, n)
        pitch = rng.uniform(-85, 85, n)
        # up to a thousandth of a degree from the singularity (the statement excludes only the singular attitude itself): step and tolerance scale
        # with cos(pitch)
        near = rng.random(n) < 0.3
        pitch = np.where(near, rng.choice([-1, 1], n) * (90.0 - 10 ** rng.uniform(-3, 0.7, n)), pitch)
        bump('phi_block_near_singular', int(near.sum()))
        rph = np.column_stack([roll, pitch, head])
        traj = pd.DataFrame(np.column_stack([rng.uniform(-80, 80, n), rng.uniform(-180, 180, n), rng.uniform(0, 1e4, n),
                                             rng.uniform(-100, 100, (n, 3)), rph]),
                            columns=['lat', 'lon', 'alt', 'VN', 'VE', 'VD', 'roll', 'pitch', 'heading'])
        em = InsErrorModel()
        T = em.transform_to_output(traj)
        blk = T[:, 6:9, 6:9]
        C = transform.mat_from_rph(rph)

        cp_ = np.cos(pitch * D2R)

        def d_rph(h):
            cols = []
            hv = h * cp_                      # per point: the Euler angles change on the scale phi / cos(pitch)
            for k in range(3):
                e = np.zeros((n, 3))
                e[:, k] = hv
                Rp = Rotation.from_rotvec(e).as_matrix()
                Rm = Rotation.from_rotvec(-e).as_matrix()
                a = transform.mat_to_rph(np.einsum('nij,njk->nik', Rp, C))
                b = transform.mat_to_rph(np.einsum('nij,njk->nik', Rm, C))
                cols.append(wrap180(a - b) / (2 * hv)[:, None])
            return np.stack(cols, axis=2)
        h = 1e-3
        deriv = (4 * d_rph(h / 2) - d_rph(h)) / 3        # deg per rad, of rph(exp(phi) C) w.r.t. phi
        # internal phi is the rotation that takes the INS attitude to the true one, output error is
        # INS - true, hence the block is minus the derivative
        res = np.abs(blk + deriv).max(axis=(1, 2))
        tol = 2e-6 / np.cos(pitch * D2R) ** 3
        tol = np.where(near, 2e-5 * np.abs(blk).max(axis=(1, 2)) + 1e-6, tol)       # relative to the block itself near the singularity (FD step is cos-scaled)
        bump('phi_block_derivative', n)
        obs['max_phi_block_ratio'] = float((res / tol).max())
        if (res > tol).any():
            i = int(np.argmax(res / tol))
            fail('phi_block_derivative', f'attitude block of transform_to_output differs from -d(rph)/d(phi) by {res[i]:.3e} '
                 f'deg/rad (tol {tol[i]:.2e}) at rph={rph[i].tolist()}: block={blk[i].tolist()} derivative={(-deriv[i]).tolist()}')
        # single-row form agrees with stacked form
        for i in range(0, n, max(1, n // 30)):
            Ts = em.transform_to_output(traj.iloc[i])
            bump('stacked_vs_single')
            if np.abs(Ts - T[i]).max() > 1e-12 * np.abs(T[i]).max():
                fail('stacked_vs_single', f'transform_to_output(Series) differs from stacked at row {i}')
        return dict(violations=out, obs=obs, nontrivial=True, evals=n, nontrivial_count=n,
                    sample=dict(cls=cls, first=rph[0].tolist(), max_ratio=obs['max_phi_block_ratio']))
    raise ValueError(cls)
