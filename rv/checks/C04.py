"""C04 - INS error model is the linearisation of actual strapdown error growth.

Monitor: postcondition on the real InsErrorModel.system_matrices (and on
error_model.propagate_errors) against the error growth MEASURED through the real
strapdown pipeline: central-difference sensitivity of the error state after a
filter step Delta with respect to the error state before it and to constant
gyro / accelerometer errors (rv.oracles.errprop, errors in the library's own
coordinates = inverse of correct_pva), versus the transition / input response
obtained by integrating the library's F, B_gyro, B_accel along the nominal run.
Per 3x3 block:

    |S - Phi_model| <= 4 [expm((|F|+N) D) - expm(|F| D)] + 4 |S(h) - S(h/2)| + fd_floor

with N the table of the sizes of the terms the model documents as neglected
(first-order perturbation bound of a transition whose generator is known up to N).
"""
import numpy as np
import pandas as pd
from scipy.linalg import expm

from rv.core import vio
from rv.instrument import patch
from rv.oracles import truth_motion as TM
from rv.oracles import errprop as EP

ID = 'C04'
RULE = ('seeded state points on analytic truth motions: |lat|<=80, speed bands <=20 / <=300 m/s, alt 0..20 km, |pitch|<=80, attitude '
        'rates to ~1 rad/s; filter steps Delta in {0.1, 0.5, 1, 2} s, IMU step 5 and 2.5 ms; 9 (or 7) error states x 2 signs and 6 sensor-'
        'error directions x 2 signs per point; both altitude modes; propagate_errors on evenly, unevenly and two-rate sampled trajectories (every interval then halved), constant and '
        'per-stamp sensor errors; non-trivial = every point (the existing test uses one trajectory, large errors, 12 % tolerance); '
        'distinct = generator parameters'
        ' Round 4: before every evaluation the OTHER altitude mode evaluates the same trajectory object and one of its rows (argument purity, order independence); coarse-step class: steady turns of 4..11 deg/s, constant sensor errors, propagate_errors at 2 / 1 / 0.5 s steps against calibrated limits. Round 6: points AT REST probed with finite-difference steps 0.5 m / 0.5 mm/s / 5e-8 rad (floors widened for stagnating position increments and accumulated attitude rounding).')
ASSUMPTIONS = ['coarse-step class: absolute limits 16 / 8 / 4 % (2 / 1 / 0.5 s) on the velocity-error prediction of propagate_errors, calibrated on the unchanged tree for that workload (max 6.2 / 3.0 / 1.5 % over 48 runs)', 'neglected-term table N (per unit time): DR-DR v(1+tan)/R; DV-DR (0.06 + 2 Omega v + v^2 (1+tan^2)/R)/R plus g/R on its horizontal diagonal (Schuler coupling, absent from the model); DV-PHI (2 Omega + '
               'v(1+tan)/R) v; PHI-DR v(1+tan^2)/R^2; plus a velocity-independent baseline of 1 % of every included entry and 0.1 Omega g in DV-PHI; '
               'calibrated on the unchanged tree (max observed ratio of the residual to the bound recorded in the evidence) and frozen before the mutation runs',
               'finite-difference steps 1 km / 1 m/s / 1e-4 rad (1e-6 m is below the ulp of a longitude in degrees)']
REQUIRED_OBS = ['rest_points_with_tiny_errors', 'propagate_coarse_checked', 'coarse_order_decided', 'both_modes_on_one_object', 'state_points', 'blocks_checked', 'sensor_blocks_checked', 'points_3d', 'points_2d', 'slow_points', 'fast_points',
                'propagate_errors_checked', 'system_matrices_calls', 'propagate_uniform', 'propagate_uneven', 'propagate_two_rate']
REQUIRED_CLASSES = {'all': ['3d-slow', '3d-fast', '2d-slow', '2d-fast', 'propagate']}
R0 = 6.37e6
OMEGA = 7.292115e-5
K_MODEL = 4.0
K_TRUNC = 4.0


def setup():
    patch.import_all()
    from pyins import error_model
    patch.wrap(error_model.InsErrorModel, 'system_matrices', counter='system_matrices_calls')
    patch.wrap(error_model, 'propagate_errors', counter='propagate_errors_calls')


def cases(seed, tier):
    out = []
    n = 96 if tier == 'quick' else 3000
    classes = ['3d-slow', '3d-fast', '2d-slow', '2d-fast']
    for i in range(n):
        out.append(dict(seed=int(seed) * 1000003 + i, cls=classes[i % 4], Delta=[0.1, 0.5, 1.0, 2.0][(i // 4) % 4], cost=1 + [0.1, 0.5, 1.0, 2.0][(i // 4) % 4]))
    # Round 6: a vehicle AT REST probed with errors below 1 mm/s / 1e-7 rad (the regime of a stationary alignment; a "standstill" shortcut in
    # the mechanisation - transport rate skipped below some speed - cuts the velocity -> tilt feedback that closes the Schuler loop)
    for i in range(12 if tier == 'quick' else 200):
        out.append(dict(seed=int(seed) * 1000003 + 70000 + i, cls=['3d-slow', '2d-slow'][i % 2], Delta=[1.0, 2.0][(i // 2) % 2], rest=True, cost=3))
    npp = 16 if tier == 'quick' else 300
    for i in range(npp):
        out.append(dict(seed=int(seed) * 1000003 + 60000 + i, cls='propagate', cost=4))
        if i % 2 == 0:
            out.append(dict(seed=int(seed) * 1000003 + 65000 + i, cls='propagate', coarse=True, cost=8))
    return out


def neglected(pva, wa):
    """9x9 (or 7x7) table of neglected-term sizes per unit time at this state."""
    lat, v = np.deg2rad(pva[0]), np.linalg.norm(pva[3:6])
    t = abs(np.tan(lat))
    N = np.zeros((9, 9))
    N[0:3, 0:3] = v * (1 + t) / R0
    N[3:6, 0:3] = (0.06 + 2 * OMEGA * v + v * v * (1 + t * t) / R0) / R0
    # horizontal gravity-direction (Schuler) coupling g / R, structurally absent from the model's DV-DR block (its horizontal diagonal is zero):
    # it reaches DR-DR as (g / R) D^2 / 2 = 3e-6 at D = 2 s whatever the speed (thorough-run false alarm at v = 0.45 m/s, 1.29 x the old bound)
    N[3, 0] += 9.8 / R0
    N[4, 1] += 9.8 / R0
    N[3:6, 6:9] = (2 * OMEGA + v * (1 + t) / R0) * v
    N[6:9, 0:3] = v * (1 + t * t) / R0 ** 2
    if wa:
        return N
    T23 = np.zeros((7, 9))
    for i, j in enumerate(EP.IDX2):
        T23[i, j] = 1
    T32 = T23.T.copy()
    T32[5, 4] = abs(pva[4])
    T32[5, 5] = abs(pva[3])
    return T23 @ N @ T32


def blocks(n):
    if n == 9:
        return {'DR': slice(0, 3), 'DV': slice(3, 6), 'PHI': slice(6, 9)}
    return {'DR': slice(0, 2), 'DV': slice(2, 4), 'PHI': slice(4, 7)}


def fd_floor(n, v, nsteps, scale=1.0):
    # rounding of lat / lon in degrees (~1.5e-9 m per step) random-walks over the steps of the run
    noise = np.array([1e-8 * np.sqrt(1 + nsteps / 100)] * 3 + [4e-12 * (1 + v)] * 3 + [4e-15] * 3)
    if scale < 1:
        # tiny errors at rest: a per-step position increment below half an ulp of the latitude / longitude in degrees (8e-10 m) is absorbed
        # entirely (stagnation, not a random walk) - up to nsteps half-ulps are missing from a measured position response
        noise[:3] += nsteps * 5e-10
        # attitude rounding (eps per step, random walk over 200..800 steps: 1.2e-14 observed) no longer disappears under a 1e-4 rad step
        noise[6:] = 4e-14
    steps = EP.STEPS3 * scale
    if n == 7:
        noise, steps = noise[EP.IDX2], steps[EP.IDX2]
    fl = noise[:, None] / steps[None, :]
    flg = noise[:, None] / (EP.GYRO_STEP * scale) * np.ones((1, 3))
    fla = noise[:, None] / (EP.ACCEL_STEP * scale) * np.ones((1, 3))
    return fl, flg, fla


def run_point(case, out, obs):
    from pyins import error_model
    rng = np.random.Generator(np.random.PCG64(case['seed']))
    wa = case['cls'].startswith('3d')
    slow = case['cls'].endswith('slow')
    Delta = case['Delta']
    m, ex = TM.random_motion(rng, Delta + 1, lat_range=(-80, 80), speed_max=20.0 if slow else 300.0, alt_range=(0, 20000), aggressive=0.6)
    scale = 1.0
    if case.get('rest'):
        m, ex = TM.special_motion(rng, Delta + 1, 'rest')
        scale = 5e-4                # steps 0.5 m, 0.5 mm/s, 5e-8 rad; sensor steps 5e-8 rad/s, 5e-6 m/s^2
        obs['rest_points_with_tiny_errors'] = 1
    if not wa:
        # level flight: the 2-D mode models no vertical motion
        m.p['alt'] = [m.p['alt'][0], 0.0]
    res = {}
    em = error_model.InsErrorModel(wa)
    for h in (0.005, 0.0025):
        tt = np.arange(int(round(Delta / h)) + 1) * h
        imu = m.imu(tt, 'rate')
        pva0 = m.trajectory(tt[:1]).iloc[0].values.astype(float)
        if abs(pva0[7]) > 80:
            return dict(skipped='pitch > 80')
        P = EP.Propagator(imu, wa)
        S, Sg, Sa, nom = EP.sensitivity(P, pva0, scale)
        # the other altitude mode looks at the same trajectory object first (and at one row of it as a Pva): neither call may leave a trace in
        # the object, and the matrices of this mode must not depend on the other having been asked before
        nom_before = nom.copy()
        other = error_model.InsErrorModel(not wa)
        other.system_matrices(nom)
        other.system_matrices(nom.iloc[len(nom) // 2])
        F, Bg, Ba = em.system_matrices(nom)
        obs['both_modes_on_one_object'] = obs.get('both_modes_on_one_object', 0) + 1
        if not nom.equals(nom_before) or list(nom.columns) != list(nom_before.columns):
            ch = [c for c in nom_before.columns if c not in nom or not np.array_equal(nom[c].values, nom_before[c].values)]
            out.append(vio('argument_modified', f'system_matrices changed the trajectory handed to it (columns {ch}) - the {"3-D" if wa else "2-D"} model was evaluated after '
                           f'the {"2-D" if wa else "3-D"} one on the same object'))
            return {}
        if h == 0.005:
            Phi, Gg, Ga = EP.model_response(F, Bg, Ba, h)
            Fabs = np.abs(F).max(axis=0)
            Babs = np.hstack([np.abs(Bg).max(axis=0), np.abs(Ba).max(axis=0)])
        else:
            Phi_f, Gg_f, Ga_f = EP.model_response(F, Bg, Ba, h)     # the model's own quadrature error (B, F sampled on the grid)
        res[h] = (S, Sg, Sa)
    n = em.n_states
    if F.shape[1:] != (n, n) or Bg.shape[1:] != (n, 3) or Ba.shape[1:] != (n, 3):
        out.append(vio('shapes', f'system_matrices shapes {F.shape} {Bg.shape} {Ba.shape} for with_altitude={wa}'))
        return {}
    v = float(np.linalg.norm(pva0[3:6]))
    N = neglected(pva0, wa)
    # first-order perturbation bound incl. the input response (augmented generator [[F, B], [0, 0]])
    A0 = np.zeros((n + 6, n + 6))
    A0[:n, :n] = Fabs
    A0[:n, n:] = Babs
    A1 = A0.copy()
    # plus a velocity-independent baseline: 1 % of every included entry and 0.1 Omega g in DV-PHI (cross terms of gravity and
    # frame rotation); needed at v -> 0 where the v-proportional table vanishes (calibration: thorough run, seed 7)
    base = 0.01 * Fabs
    bl_ = blocks(n)
    base[bl_['DV'], bl_['PHI']] += 0.1 * OMEGA * 9.8
    A1[:n, :n] += N + base
    E = expm(A1 * Delta) - expm(A0 * Delta)
    Ephi, Eg, Ea = E[:n, :n], E[:n, n:n + 3], E[:n, n + 3:]
    S, Sg, Sa = res[0.005]
    S2, Sg2, Sa2 = res[0.0025]
    fl, flg, fla = fd_floor(n, v, int(round(Delta / 0.0025)), scale)
    bound = K_MODEL * Ephi + K_TRUNC * (np.abs(S - S2) + np.abs(Phi - Phi_f)) + fl + 1e-7 * np.abs(S)
    resid = np.abs(S - Phi)
    bl = blocks(n)
    obs['state_points'] = 1
    obs['points_3d' if wa else 'points_2d'] = 1
    obs['slow_points' if slow else 'fast_points'] = 1
    ctx = (f'with_altitude={wa} Delta={Delta} lat={pva0[0]:.1f} alt={pva0[2]:.0f} v={pva0[3:6].round(1).tolist()} '
           f'rph={pva0[6:9].round(1).tolist()}')
    states = em.states
    for rn_, rs in bl.items():
        for cn, cs in bl.items():
            obs['blocks_checked'] = obs.get('blocks_checked', 0) + 1
            ratio = (resid[rs, cs] / bound[rs, cs]).max()
            key = f'max_ratio_{rn_}_{cn}_x1000'
            obs[key] = max(obs.get(key, 0), int(1000 * ratio))
            if ratio > 1:
                i, j = np.unravel_index(np.argmax(resid[rs, cs] / bound[rs, cs]), resid[rs, cs].shape)
                i += rs.start
                j += cs.start
                out.append(vio('coupling_block', f'block {rn_}-{cn}: measured sensitivity d {states[i]}(t+D) / d {states[j]}(t) = {S[i, j]:.6e} but the '
                               f'error model predicts {Phi[i, j]:.6e} (difference {resid[i, j]:.3e} > bound {bound[i, j]:.3e} = neglected-term '
                               f'allowance {K_MODEL * Ephi[i, j]:.2e} + truncation {K_TRUNC * abs(S[i, j] - S2[i, j]):.2e} + fd floor); {ctx}',
                               block=f'{rn_}-{cn}'))
        for name, Sm, Sm2, G, Gf, Eb, flb in (('gyro', Sg, Sg2, Gg, Gg_f, Eg, flg), ('accel', Sa, Sa2, Ga, Ga_f, Ea, fla)):
            obs['sensor_blocks_checked'] = obs.get('sensor_blocks_checked', 0) + 1
            bd = K_MODEL * Eb + K_TRUNC * (np.abs(Sm - Sm2) + np.abs(G - Gf)) + flb + 1e-7 * np.abs(Sm)
            rr = np.abs(Sm - G)
            ratio = (rr[rs] / bd[rs]).max()
            key = f'max_ratio_{rn_}_{name}_x1000'
            obs[key] = max(obs.get(key, 0), int(1000 * ratio))
            if ratio > 1:
                i, j = np.unravel_index(np.argmax(rr[rs] / bd[rs]), rr[rs].shape)
                i += rs.start
                out.append(vio('sensor_coupling', f'{name} error axis {j} -> {states[i]}: measured response {Sm[i, j]:.6e}, model (B_{name} integrated with F) '
                               f'{G[i, j]:.6e} (difference {rr[i, j]:.3e} > bound {bd[i, j]:.3e}); {ctx}', block=f'{rn_}-{name}'))
    return dict(Delta=Delta, with_altitude=wa, pva=pva0.round(4).tolist(), speed=v)


def run_propagate(case, out, obs):
    """error_model.propagate_errors vs the error growth measured through the real integrator, on a sampling ladder."""
    from pyins import error_model, strapdown
    rng = np.random.Generator(np.random.PCG64(case['seed']))
    wa = bool(rng.integers(0, 2))
    T = 20.0
    m, ex = TM.random_motion(rng, T + 1, lat_range=(-80, 80), speed_max=float(rng.choice([20.0, 300.0])), alt_range=(0, 20000), aggressive=0.4)
    if not wa:
        m.p['alt'] = [m.p['alt'][0], 0.0]
    per_stamp = bool(rng.integers(0, 2))
    x0_out = np.hstack([rng.standard_normal(3) * 20, rng.standard_normal(3) * 0.5, rng.standard_normal(3) * 0.05])
    if not wa:
        x0_out[2] = 0.0
        x0_out[5] = 0.0
    ge = rng.standard_normal(3) * 2e-5
    ae = rng.standard_normal(3) * 5e-3
    pe = pd.Series(x0_out, index=['north', 'east', 'down', 'VN', 'VE', 'VD', 'roll', 'pitch', 'heading'])
    # measured: integrate clean and corrupted IMU from true / perturbed state at a fine IMU step
    h = 0.005
    tt = np.arange(int(round(T / h)) + 1) * h
    imu = m.imu(tt, 'rate')
    truth = m.trajectory(tt)
    from pyins import sim
    ins0 = sim.perturb_pva(truth.iloc[0], pe)
    im = imu.copy()
    im[EP.GY] = im[EP.GY].values + ge
    im[EP.AC] = im[EP.AC].values + ae
    I = strapdown.Integrator(ins0, wa)
    I.integrate(strapdown.compute_increments_from_imu(im, 'rate'))
    I0 = strapdown.Integrator(truth.iloc[0], wa)
    I0.integrate(strapdown.compute_increments_from_imu(imu, 'rate'))
    from pyins import transform
    measured = transform.compute_state_difference(I.trajectory, I0.trajectory)
    res = []
    # the trajectory handed to propagate_errors need not be evenly sampled ("every trajectory"): uniform, randomly uneven, or two
    # rates (e.g. 20 ms then 0.4 s); the second rung halves every interval
    N = len(I0.trajectory) - 1
    pattern = ['uniform', 'uneven', 'two_rate'][case['seed'] % 3]
    if pattern == 'uniform':
        steps = np.full(N // 20, 20)
    elif pattern == 'uneven':
        steps = rng.choice([8, 12, 20, 30, 40], size=N // 8)
    else:
        a_, b_ = (4, 80) if rng.random() < 0.5 else (80, 4)
        ksw = int(N * rng.uniform(0.2, 0.5))
        steps = np.r_[np.full(ksw // a_, a_), np.full(N // b_, b_)]
    idx = np.r_[0, np.cumsum(steps)]
    idx = idx[idx <= N]
    obs['propagate_' + pattern] = 1
    for k in range(2):
        ii = idx if k == 0 else np.sort(np.r_[idx, (idx[:-1] + idx[1:]) // 2])
        tr = I0.trajectory.iloc[ii]
        if per_stamp:
            g_arg, a_arg = np.tile(ge, (len(tr), 1)), np.tile(ae, (len(tr), 1))
        else:
            g_arg, a_arg = ge, ae
        terr, merr = error_model.propagate_errors(tr, pe, g_arg, a_arg, with_altitude=wa)
        if list(terr.columns) != list(pe.index) or not terr.index.equals(tr.index) or list(merr.columns) != error_model.InsErrorModel(wa).states:
            out.append(vio('propagate_schema', f'propagate_errors tables have columns {list(terr.columns)} / {list(merr.columns)}'))
            return {}
        res.append(terr)
    obs['propagate_errors_checked'] = 1
    a, b = res[0], res[1].iloc[::2]
    meas = measured.loc[a.index]
    # scale of the error per group, for the linearisation (second-order) allowance
    groups = {'pos': ['north', 'east', 'down'], 'vel': ['VN', 'VE', 'VD'], 'att': ['roll', 'pitch', 'heading']}
    if not wa:
        groups = {'pos': ['north', 'east'], 'vel': ['VN', 'VE'], 'att': ['roll', 'pitch', 'heading']}
    for g, cols in groups.items():
        e = np.abs(a[cols].values - meas[cols].values)
        if g == 'att':
            e = np.abs((e + 180) % 360 - 180)
        d = np.abs(a[cols].values - b[cols].values)
        size = np.abs(meas[cols].values).max()
        # second-order terms of the true error growth relative to the linear model: |error|^2 scale, plus the neglected model terms
        v = ex['speed_max']
        lin = 0.02 * size
        bound = 4 * d.max() + lin + {'pos': 1e-4, 'vel': 1e-6, 'att': 1e-8}[g]
        key = f'max_propagate_{g}_x1000'
        obs[key] = max(obs.get(key, 0), int(1000 * e.max() / bound))
        if e.max() > bound:
            out.append(vio('propagate_errors', f'{g}: propagate_errors differs from the error growth measured through the integrator by {e.max():.3e} '
                           f'(error size {size:.3e}; halving the trajectory sampling changes the prediction by {d.max():.3e}); with_altitude={wa} '
                           f'per_stamp_sensor_errors={per_stamp} lat={truth.lat.iloc[0]:.1f} speed<={v:.0f}'))
    return dict(with_altitude=wa, per_stamp=per_stamp, T=T)


def run_propagate_coarse(case, out, obs):
    """propagate_errors at the coarse end of the step range (2 s, 1 s, 0.5 s) on a steady turn with constant sensor errors: the sensor terms are
    averaged over each step (trapezoid), so its predictions converge with the SQUARE of the step - the change between 1 s and 0.5 s must be
    well below half the change between 2 s and 1 s (a term taken at one end of the step instead of averaged is first order: ratio 1/2),
    and the 0.5 s prediction must match the error growth measured through the integrator."""
    from pyins import error_model, strapdown, sim, transform
    rng = np.random.Generator(np.random.PCG64(case['seed']))
    wa = bool(rng.integers(0, 2))
    T = 40.0
    m, ex = TM.random_motion(rng, T + 1, lat_range=(-75, 75), speed_max=float(rng.choice([30.0, 200.0])), alt_range=(0, 10000), aggressive=0.3, gentle=True)
    m.p['heading'][1] = float(rng.choice([-1, 1]) * rng.uniform(0.07, 0.2))          # a steady turn of 4..11 deg/s
    if not wa:
        m.p['alt'] = [m.p['alt'][0], 0.0]
    ge = rng.standard_normal(3) * 2e-5
    ae = rng.standard_normal(3) * 5e-3
    pe = pd.Series(np.zeros(9), index=['north', 'east', 'down', 'VN', 'VE', 'VD', 'roll', 'pitch', 'heading'])
    h = 0.005
    tt = np.arange(int(round(T / h)) + 1) * h
    imu = m.imu(tt, 'rate')
    truth = m.trajectory(tt)
    im = imu.copy()
    im[EP.GY] = im[EP.GY].values + ge
    im[EP.AC] = im[EP.AC].values + ae
    I = strapdown.Integrator(truth.iloc[0], wa)
    I.integrate(strapdown.compute_increments_from_imu(im, 'rate'))
    I0 = strapdown.Integrator(truth.iloc[0], wa)
    I0.integrate(strapdown.compute_increments_from_imu(imu, 'rate'))
    measured = transform.compute_state_difference(I.trajectory, I0.trajectory)
    preds = []
    for step in (400, 200, 100):
        tr = I0.trajectory.iloc[::step]
        terr, _ = error_model.propagate_errors(tr, pe, ge, ae, with_altitude=wa)
        preds.append(terr.iloc[::400 // step])
    obs['propagate_coarse_checked'] = 1
    groups = {'pos': ['north', 'east', 'down'], 'vel': ['VN', 'VE', 'VD'], 'att': ['roll', 'pitch', 'heading']}
    if not wa:
        groups = {'pos': ['north', 'east'], 'vel': ['VN', 'VE'], 'att': ['roll', 'pitch', 'heading']}
    meas = measured.loc[preds[0].index]
    for g, cols in groups.items():
        size = np.abs(meas[cols].values).max()
        d1 = np.abs(preds[0][cols].values - preds[1][cols].values).max()
        d2 = np.abs(preds[1][cols].values - preds[2][cols].values).max()
        e3 = np.abs(preds[2][cols].values - meas[cols].values).max()
        floor = 2e-3 * size + {'pos': 1e-4, 'vel': 1e-6, 'att': 1e-8}[g]
        for k_, lab_ in enumerate(('2s', '1s', '05s')):
            ek = np.abs(preds[k_][cols].values - meas[cols].values).max() / max(size, 1e-300)
            obs[f'max_coarse_rel_{g}_{lab_}_x10000'] = max(obs.get(f'max_coarse_rel_{g}_{lab_}_x10000', 0), int(10000 * ek))
        obs['coarse_order_decided'] = obs.get('coarse_order_decided', 0) + 1
        if g == 'vel':
            # calibrated on the unchanged tree for THIS workload (steady turn 4..11 deg/s, constant sensor errors, no initial error, 40 s): the
            # velocity prediction deviates by at most 1.5 % / 3.0 % / 6.2 % of the error size at 0.5 / 1 / 2 s steps (Euler position-velocity
            # coupling); a sensor term taken at one end of the step instead of averaged gives 6.7 / 13 / 27 %
            for k_, (lab_, lim_) in enumerate((('2 s', 0.16), ('1 s', 0.08), ('0.5 s', 0.04))):
                ek = np.abs(preds[k_][cols].values - meas[cols].values).max() / max(size, 1e-300)
                if ek > lim_:
                    out.append(vio('propagate_errors', f'vel: propagate_errors at a {lab_} step on a steady turn ({np.rad2deg(m.p["heading"][1]):.1f} deg/s) deviates from the error growth '
                                   f'measured through the integrator by {100 * ek:.1f} % of the error size (calibrated limit {100 * lim_:.1f} %); with_altitude={wa}'))
                    break
        bound = 1.5 * d2 + 0.02 * size + {'pos': 1e-4, 'vel': 1e-6, 'att': 1e-8}[g]
        obs[f'max_coarse_{g}_x1000'] = max(obs.get(f'max_coarse_{g}_x1000', 0), int(1000 * e3 / bound))
        if e3 > bound:
            out.append(vio('propagate_errors', f'{g}: propagate_errors at a 0.5 s step differs from the error growth measured through the integrator by {e3:.3e} '
                           f'(bound {bound:.3e}, error size {size:.3e}); steady turn {np.rad2deg(m.p["heading"][1]):.1f} deg/s, with_altitude={wa}'))
    return dict(with_altitude=wa, T=T, coarse=True)


def run_case(case):
    obs = {}
    out = []
    c0 = patch.COUNTERS['system_matrices_calls']
    try:
        sample = (run_propagate_coarse(case, out, obs) if case.get('coarse') else run_propagate(case, out, obs)) if case['cls'] == 'propagate' else run_point(case, out, obs)
        obs['system_matrices_calls'] = patch.COUNTERS['system_matrices_calls'] - c0
    except Exception as e:
        import traceback
        return dict(violations=[vio('exception', f'{type(e).__name__}: {e}', tb=traceback.format_exc()[-1200:])], obs=obs)
    return dict(violations=out[:10], obs=obs, nontrivial='skipped' not in sample, sample=dict(cls=case['cls'], **sample))
