"""C10 - feedforward filter terminates and consumes every schedule exactly once.

One case = one run of the real filters.run_feedforward_filter on a seeded
schedule under the boundary event recorder and the sys.monitoring loop monitor
(bounded progress in while-header visits; cursor locals read from the frame).
The history is checked offline by rv.oracles.seqmodels.check_feedforward.
"""
import numpy as np

from rv.core import vio
from rv.instrument import events, linebudget, patch
from rv.oracles import seqmodels
from rv.workloads import schedules

ID = 'C10'
RULE = ('seeded schedules as in C09 with the trajectory sampling in place of the IMU sampling (uniform / jittered / gapped), '
        'computed trajectory = nominal + smooth error; with and without increments (with: scale/misalignment models, so a zero '
        'time_delta shows up as non-finite output); time_step below / equal to (incl. decimal-grid k*0.1 cases) / above the '
        'sampling interval up to 2x the span; measurements None / [] / lists; both altitude modes; non-trivial = anything but '
        '(time_step >= 100x sampling interval with on-grid epochs); distinct = distinct seeds'
        ' Round 3: every third schedule is run a second time with the same measurement / model objects and judged again.'
        ' Round 4: the two sensor triads configured independently (scale / misalignment on one of them only, one triad without a model); records of 2..4 rows.'
        ' Round 5: nominal and computed trajectory with the same stamps under different index names; measurement rows not in time order; sensors listed in any order.')
ASSUMPTIONS = ['termination is decided as bounded progress: while-header visits <= 2 (rows + epochs in span) + 4, never by wall clock',
               'stamping of innovation rows with the sample time is not demanded by C10 (the filter stamps them with the row time)']
REQUIRED_OBS = ['prelude_runs_on_a_shorter_span', 'reruns_with_same_objects', 'schedules_with_permuted_tables', 'schedules_with_tiny_record', 'trajectories_with_different_index_names', 'schedules_with_unsorted_measurement_rows', 'schedules_with_independent_triad_models', 'runs_completed', 'loop_iterations', 'hit_events', 'correct_events', 'schedules_with_clusters', 'schedules_with_gaps',
                'schedules_without_measurements', 'time_step_below_sampling', 'time_step_equal_sampling', 'with_increments',
                'offline_checks']
REQUIRED_CLASSES = {'all': ['uniform', 'jitter', 'gaps']}
LOOP = {}


def setup():
    patch.import_all()
    from pyins import filters
    events.install()
    LOOP['m'] = linebudget.LoopMonitor(filters.run_feedforward_filter, ['index', 'measurement_time_index'])
    LOOP['m'].install()
    schedules.fine_truth()


def cases(seed, tier):
    n = 480 if tier == 'quick' else 12000
    out = []
    for i in range(n):
        s = int(seed) * 1000003 + i
        rng = np.random.Generator(np.random.PCG64(s))
        out.append(dict(seed=s, cls=str(rng.choice(['uniform', 'jitter', 'gaps']))))
    return out


def computed_trajectory(S):
    traj = S['traj']
    t = S['times'] - S['start']
    e = S['init_err']
    c = traj.copy()
    c['lat'] += (e[0] + 0.1 * t) / 111e3
    c['lon'] += (e[1] - 0.05 * t) / 70e3
    c['alt'] += e[2] * (1.0 if S['with_altitude'] else 0.0)
    c['VN'] += e[3]
    c['VE'] += e[4]
    c['roll'] += e[6]
    c['pitch'] += e[7]
    c['heading'] += e[8]
    return c


def run_filter(S, loop, with_increments):
    from pyins import filters
    n_epochs = S['describe']['epochs_inside']
    budget = 2 * (len(S['traj']) + n_epochs) + 4
    loop.reset(budget, 400 * budget + 5000)
    gm, am = S['gyro_model'], S['accel_model']
    inc = S['increments'] if with_increments else None
    if not with_increments and S['model_kind'] == 'full':
        from pyins import inertial_sensor
        gm = inertial_sensor.EstimationModel(bias_sd=1e-4, noise=1e-5)
        am = inertial_sensor.EstimationModel(bias_sd=1e-2, bias_walk=1e-4)
    events.start()
    try:
        comp_ = computed_trajectory(S)
        if S.get('index_names_differ'):
            # equally indexed tables from different sources: the same stamps under another index name
            comp_ = comp_.set_axis(comp_.index.rename(S['index_names_differ'] if S['index_names_differ'] != 'None' else None))
        r = filters.run_feedforward_filter(S['traj'], comp_, 5, 1, 0.5, 1.0, gm, am,
                                           measurements=S['measurements'], increments=inc, time_step=S['time_step'],
                                           with_altitude=S['with_altitude'])
        return r, events.stop(), None
    except linebudget.NonTermination as e:
        return None, events.stop(), vio('no_bounded_progress', f'loop exceeded its logical budget: {e}; last cursors (index, '
                                        f'measurement_time_index) {loop.cursors[-3:]}', budget=budget)
    except Exception as e:
        import traceback
        return None, events.stop(), vio('exception', f'{type(e).__name__}: {e}', tb=traceback.format_exc()[-1500:])


def run_case(case):
    S = schedules.build(case['seed'], for_feedforward=True)
    if case['seed'] % 4 == 1:
        S['index_names_differ'] = ['None', 't', 'gps_time'][case['seed'] % 3]
    loop = LOOP['m']
    d = S['describe']
    rng = np.random.Generator(np.random.PCG64(case['seed'] + 31))
    with_increments = bool(rng.integers(0, 2)) or S['model_kind'] == 'full' and rng.random() < 0.7
    d = dict(d, with_increments=with_increments)
    obs = {}
    # what the samples ARE is fixed before anything runs (a filter that trims the caller's tables must not also trim the expectation)
    import copy
    frozen = []
    for m_ in S['sensors']:
        f_ = copy.copy(m_)
        f_.data = m_.data.copy()
        frozen.append(f_)
    if case['seed'] % 3 == 2 and len(S['traj']) >= 12:
        # Round 6: "a quick look at the first part, then the whole log" with the SAME measurement objects: the first call sees a shorter span
        k_ = int(len(S['traj']) * float(rng.uniform(0.25, 0.6)))
        S0 = dict(S, traj=S['traj'].iloc[:k_], increments=S['increments'].iloc[:max(k_ - 1, 1)] if S.get('increments') is not None else None,
                  describe=dict(S['describe']), times=S['times'][:k_], _prefix=k_)
        run_filter(S0, loop, with_increments)
        obs['prelude_runs_on_a_shorter_span'] = 1
    r, ev, err = run_filter(S, loop, with_increments)
    out = []
    if err is not None:
        out.append(err)
    obs['loop_iterations'] = loop.iterations
    obs['max_iterations_over_budget_x1000'] = int(1000 * loop.iterations / max(1, loop.iter_budget))
    obs['hit_events'] = sum(e['kind'] == 'compute_matrices' and e['hit'] for e in ev)
    obs['correct_events'] = sum(e['kind'] == 'correct' for e in ev)
    obs['process_matrix_events'] = sum(e['kind'] == 'process_matrices' for e in ev)
    obs['schedules_with_independent_triad_models'] = int(bool(d.get('mixed_models')))
    obs['schedules_with_unsorted_measurement_rows'] = int(bool(d.get('rows_unsorted')))
    obs['trajectories_with_different_index_names'] = int(bool(S.get('index_names_differ')))
    obs['schedules_with_tiny_record'] = int(bool(d.get('tiny_record')))
    obs['schedules_with_permuted_tables'] = int(bool(d.get('tables_permuted')))
    obs['schedules_with_clusters'] = int(d['max_epochs_in_one_interval'] >= 2)
    obs['schedules_with_gaps'] = int(d['imu'] == 'gaps')
    obs['schedules_without_measurements'] = int(d['measurements_arg'] != 'list')
    obs['time_step_below_sampling'] = int(d['time_step'] < d['median_dt'] * (1 - 1e-9))
    obs['time_step_equal_sampling'] = int(abs(d['time_step'] - d['median_dt']) <= 1e-6 * d['median_dt'])
    obs['time_step_below_max_gap'] = int(d['time_step'] < d['max_gap'])
    obs['with_increments'] = int(with_increments)
    if r is not None:
        obs['runs_completed'] = 1
        obs['offline_checks'] = 1
        out.extend(seqmodels.check_feedforward(ev, r, S['times'], frozen, S['time_step'], loop))
        if case['seed'] % 3 == 0 and not out:
            # the same measurement and model objects handed to the filter again (a parameter study on one data set): the second run must
            # consume every sample exactly once too (a cursor / memo kept inside the objects only shows on the second run)
            r2, ev2, err2 = run_filter(S, loop, with_increments)
            obs['reruns_with_same_objects'] = 1
            if err2 is not None:
                out.append(dict(err2, message='[second run with the same objects] ' + err2['message']))
            else:
                out.extend(dict(v, message='[second run with the same objects] ' + v['message'])
                           for v in seqmodels.check_feedforward(ev2, r2, S['times'], frozen, S['time_step'], loop))
                if not np.array_equal(r['trajectory'].values, r2['trajectory'].values) or not np.array_equal(r['trajectory_sd'].values, r2['trajectory_sd'].values):
                    out.append(vio('rerun_differs', 'a second run with the same measurement / model objects returns a different trajectory or sd table'))
    # interleaving signature: how many measurement epochs fall into each sampling interval (run-length coded), the relation of the covariance
    # step to the sampling interval, and which sensors share epochs - the evidence reports how many DISTINCT interleavings were driven
    t_ = S['times']
    all_e = np.unique(np.concatenate([np.asarray(m_.data.index, float) for m_ in S['sensors']] + [np.array([])]))
    ins = all_e[(all_e >= t_[0]) & (all_e < t_[-1])]
    per = np.bincount(np.searchsorted(t_, ins, side='right'), minlength=len(t_) + 1)[1:len(t_)] if len(ins) else np.zeros(len(t_) - 1, int)
    on_stamp = int(np.isin(ins, t_).sum())
    rl = []
    for v_ in per.tolist():
        if rl and rl[-1][0] == v_:
            rl[-1][1] += 1
        else:
            rl.append([v_, 1])
    shared_ = sum(len(np.intersect1d(np.asarray(a_.data.index, float), np.asarray(b_.data.index, float))) > 0
                  for i_, a_ in enumerate(S['sensors']) for b_ in S['sensors'][i_ + 1:])
    ratio = d['time_step'] / d['median_dt']
    band = 'ts<dt' if ratio < 0.999 else 'ts=dt' if ratio < 1.001 else 'ts<10dt' if ratio < 10 else 'ts>=10dt'
    signature = f"{d['imu']}|{band}|on{on_stamp}|sh{shared_}|" + ','.join(f'{a_}x{b_}' for a_, b_ in rl)
    trivial = d['time_step'] >= 100 * d['median_dt'] and all(set(s['modes']) <= {'on'} for s in d['sensors'])
    for v in out:
        v.setdefault('detail', {})['schedule'] = d
    return dict(violations=out, obs=obs, nontrivial=not trivial, signatures=[signature],
                sample=dict(schedule=d, iterations=loop.iterations, events=len(ev),
                            result_rows=None if r is None else int(len(r['trajectory']))))


def classify(case, v):
    d = v.get('detail', {}).get('schedule', {})
    if not d:
        return None
    if v['kind'] == 'no_bounded_progress' and d['time_step'] < d['max_gap'] * (1 + 1e-9):
        return 'ff:step-below-gap'
    if d.get('max_epochs_in_one_interval', 0) >= 2 and v['kind'] in ('grid_not_increasing', 'table_nonfinite', 'propagation_nonfinite',
                                                                     'exception', 'innovation_nonfinite'):
        return 'ff:clustered-epochs'
    return None
