"""C03 - synthesised IMU matches the motion's true kinematics and inverts strapdown.

Monitor: postcondition on the real sim.generate_imu (three input forms x two
sensor types) against the analytic truth motion (rv.oracles.truth_motion): gyro /
accelerometer readings vs the exact body rate / specific force (rate type) or
their exact interval integrals (increment type) on interior samples, the returned
trajectory vs the truth, and the strapdown re-integration of the synthesised
readings vs the returned trajectory - each through the halving ladder
(err(h) <= 6 |r(h) - r(h/2)| + floor, and err(h/2) <= 0.9 err(h) while above the floor); a body
at rest vs the closed form C^T w_ie, -C^T g_n; generate_sine_velocity_motion vs
its documented closed form and an own integration of it on the ellipsoid.
"""
import numpy as np
import pandas as pd

from rv.core import vio
from rv.instrument import patch
from rv.oracles import truth_motion as TM
from rv.oracles import wgs84 as W
from rv.workloads import forms

ID = 'C03'
RULE = ('seeded analytic truth motions (|lat|<=85 both hemispheres, speed <=300 m/s, 3-axis attitude sinusoids) sampled at h in '
        '{100, 50, 20} ms and h/2, each through the three input forms x two sensor types; bodies at rest at random lat / alt / attitude '
        'for h in 100..5 ms; generate_sine_velocity_motion over its parameter space; non-trivial = moving or tilted or not at lat 55 '
        '(the existing tests: one stationary point, one gentle planar motion); distinct = generator parameters'
        ' Round 5: rest records of 60001 samples whose sampling clock drifts by 2 ppm (neighbouring intervals 3e-13 s apart). Round 6: an eighth of the motions sit on the antimeridian at half time and are handed over with the longitude column wrapped into (-180, 180].')
ASSUMPTIONS = ['accelerometer floor 100 eps R / h^2: the readings come from a spline second derivative of a 6.4e6 m vector (measured at rest: '
               '~20 eps R / h^2)', 'samples within 12 knots of either end carry spline end-condition error (decays ~0.27 per knot) and are '
               'checked with the shrink test only', 'for increment type the duplicated first sample is not compared']
REQUIRED_OBS = ['antimeridian_crossings_with_wrapped_longitude', 'rest_slow_clock_drift', 'stamps_not_from_zero', 'rest_stamps_not_from_zero', 'rest_stamps_irregular', 'long_closed_paths', 'closed_latitude_paths', 'accel_increment_order_checked', 'increment_order_checked', 'reading_ladders', 'trajectory_ladders', 'inversion_ladders', 'at_rest_checked', 'sine_motion_checked', 'forms_compared',
                'readings_above_floor']
REQUIRED_CLASSES = {'all': ['motion', 'rest', 'sine', 'long_closed']}
EPS = np.finfo(float).eps
GY = ['gyro_x', 'gyro_y', 'gyro_z']
AC = ['accel_x', 'accel_y', 'accel_z']
LLA = ['lat', 'lon', 'alt']
VEL = ['VN', 'VE', 'VD']
RPH = ['roll', 'pitch', 'heading']
STATE = {}
SKIP = 12
# the initial-position form integrates latitude by a fixed-point iteration with a documented accuracy of 0.01 m (ACCURACY, MAX_ITER = 3):
# an interval-independent position error of micrometres is inherent (seen: 2.5e-6 m in a thorough run)
POS_FLOOR = 1e-3


def setup():
    patch.import_all()
    from pyins import sim
    patch.wrap(sim, 'generate_imu', counter='generate_imu_calls')
    STATE['selftest'] = TM.selftest()


def cases(seed, tier):
    out = []
    n = 40 if tier == 'quick' else 600
    for i in range(n):
        out.append(dict(seed=int(seed) * 1000003 + i, cls='motion', h=[0.1, 0.05, 0.02][i % 3], cost=6))
    nr = 60 if tier == 'quick' else 1500
    for i in range(nr):
        out.append(dict(seed=int(seed) * 1000003 + 50000 + i, cls='rest', h=[0.1, 0.05, 0.02, 0.01, 0.005][i % 5], cost=0.5))
    nc = 8 if tier == 'quick' else 120
    for i in range(nc):
        out.append(dict(seed=int(seed) * 1000003 + 70000 + i, cls='long_closed', h=[0.1, 0.05][i % 2], cost=8))
    ns = 24 if tier == 'quick' else 400
    for i in range(ns):
        out.append(dict(seed=int(seed) * 1000003 + 80000 + i, cls='sine', cost=3))
    return out


def pos_vel_err(a, ref):
    rn, _, rp = W.radii(ref.lat.values, ref.alt.values)
    dN = np.deg2rad(a.lat.values - ref.lat.values) * rn
    dE = np.deg2rad((a.lon.values - ref.lon.values + 180) % 360 - 180) * rp
    dD = a.alt.values - ref.alt.values
    return np.sqrt(dN ** 2 + dE ** 2 + dD ** 2), np.linalg.norm(a[VEL].values - ref[VEL].values, axis=1)


def att_err(a, ref):
    from scipy.spatial.transform import Rotation
    return (Rotation.from_euler('xyz', a[RPH].values, degrees=True) * Rotation.from_euler('xyz', ref[RPH].values, degrees=True).inv()).magnitude()


def ladder(out, obs, what, e_h, e_h2, d, floor, ctx, counter):
    obs[counter] = obs.get(counter, 0) + 1
    if e_h > 100 * floor:
        obs['readings_above_floor'] = obs.get('readings_above_floor', 0) + 1
        obs['max_err_over_diff_x100'] = max(obs.get('max_err_over_diff_x100', 0), int(100 * e_h / max(d, 1e-300)))
    if e_h > 6 * d + floor:
        out.append(vio('non_vanishing_error', f'{what}: error {e_h:.3e} at h but halving the sampling interval changes the result only by '
                       f'{d:.3e} (floor {floor:.1e}); {ctx}'))
    elif e_h > 100 * floor and e_h2 > 0.9 * e_h:
        out.append(vio('not_shrinking', f'{what}: error {e_h:.3e} at h, {e_h2:.3e} at h/2; {ctx}'))


def run_motion(case, out, obs):
    from pyins import sim, strapdown
    rng = np.random.Generator(np.random.PCG64(case['seed']))
    h = case['h']
    T = max(8.0, 120 * h)
    closed = bool(case['seed'] % 4 == 3)           # a quarter of the motions return to their starting latitude at the last sample
    m, ex = TM.random_motion(rng, T, aggressive=0.7, closed=closed)
    obs['closed_latitude_paths'] = int(closed)
    forced_seam = case['seed'] % 8 == 0
    if forced_seam:
        # place the track so that it is ON the antimeridian at half time (whatever its speed, it is then handed over with a wrapped longitude)
        mid = float(m.eval(np.array([T / 2]))['lon'][0])
        m.p['lon'][0] = float(m.p['lon'][0] + (np.pi * (1 if case['seed'] % 16 == 0 else -1) - mid))
    runs = {}
    # the stamps need not start at zero (a segment of a longer record): the motion is sampled at stamp - t0, only the labels move
    t0 = float(np.random.Generator(np.random.PCG64(case['seed'] + 31)).choice([0.0, 0.0, 120.0, 777.25]))
    obs['stamps_not_from_zero'] = int(t0 != 0)
    for k, hh in enumerate((h, h / 2)):
        n = int(round(T / hh))
        stamps = t0 + np.arange(n + 1) * hh
        tt = stamps - t0
        tr = m.trajectory(tt)
        lla, rph, vel = tr[LLA].values, tr[RPH].values, tr[VEL].values
        if (lla[:, 1].max() > 180.0 or lla[:, 1].min() < -180.0) and (case['seed'] % 2 == 0 or forced_seam):
            # Round 6: a track across the antimeridian handed over with its longitude column in the conventional range (-180, 180] - the same
            # smooth motion, a 360-degree jump in one column (differences to the truth are taken modulo 360 everywhere below)
            lla = lla.copy()
            lla[:, 1] = -((-lla[:, 1] + 180.0) % 360.0 - 180.0)
            if k == 0:
                obs['antimeridian_crossings_with_wrapped_longitude'] = 1
        for form, (a, b) in {'pos+vel': (lla, vel), 'pos': (lla, None), 'init+vel': (lla[0].copy(), vel)}.items():
            for st in ('rate', 'increment'):
                rt, imu = sim.generate_imu(stamps, a, rph, b, sensor_type=st)
                if not (np.array_equal(np.asarray(imu.index), stamps) and np.array_equal(np.asarray(rt.index), stamps)):
                    out.append(vio('schema', f'generate_imu results are not stamped with the supplied times (t0={t0})'))
                    return dict(h=h, T=T)
                rt = rt.set_axis(pd.Index(tt, name=rt.index.name))
                imu = imu.set_axis(pd.Index(tt, name=imu.index.name))
                runs[(form, st, k)] = (tt, tr, rt, imu, m.imu(tt, st))
    fl_gyro_rate = 1e-11
    interior_err = {}
    interior_err2 = {}
    for form in ('pos+vel', 'pos', 'init+vel'):
        for st in ('rate', 'increment'):
            tt, tr, rt, imu, ref = runs[(form, st, 0)]
            tt2, tr2, rt2, imu2, ref2 = runs[(form, st, 1)]
            ctx = f'form={form} sensor={st} h={h} lat0={np.rad2deg(m.p["lat"][0]):.1f} speed<={ex["speed_max"]:.0f} w<={ex["w_max"]:.2f}'
            sc = h if st == 'increment' else 1.0
            if not (np.array_equal(np.asarray(imu.index), tt) and list(imu.columns) == GY + AC and len(rt) == len(tt)):
                out.append(vio('schema', f'generate_imu result shape / stamps wrong; {ctx}'))
                continue
            e1 = np.abs(imu.values - ref.values) / sc
            e2 = np.abs(imu2.values - ref2.values) / (sc / 2 if st == 'increment' else 1.0)
            if st == 'rate':
                common = imu2.values[::2]
            else:
                v2 = imu2.values
                common = np.vstack([v2[:1] * 2, v2[1::2] + v2[2::2]])     # pair sums; first (duplicated) row not compared
            d = np.abs(imu.values - common) / sc
            I = slice(SKIP, -SKIP)
            I2 = slice(2 * SKIP, -2 * SKIP)
            fl_acc = 100 * EPS * 6.4e6 / (h / 2) ** 2
            for name, cols, fl in (('gyro', slice(0, 3), fl_gyro_rate), ('accel', slice(3, 6), fl_acc)):
                ladder(out, obs, f'{name} readings (interior)', e1[I, cols].max(), e2[I2, cols].max(), d[I, cols].max(), fl, ctx, 'reading_ladders')
                interior_err[(form, st, name)] = (e1[I, cols].max(), fl)
                interior_err2[(form, st, name)] = e2[I2, cols].max()
                # end samples: shrink test only
                lo = 1 if st == 'increment' else 0
                ee1 = max(e1[lo:SKIP, cols].max(), e1[-SKIP:, cols].max())
                ee2 = max(e2[lo:2 * SKIP, cols].max(), e2[-2 * SKIP:, cols].max())
                if ee1 > 100 * fl and ee2 > 0.9 * ee1:
                    out.append(vio('ends_not_shrinking', f'{name} readings near the ends: {ee1:.3e} at h, {ee2:.3e} at h/2; {ctx}'))
            # returned trajectory vs truth
            p1, v1 = pos_vel_err(rt, tr)
            p2, v2e = pos_vel_err(rt2, tr2)
            dp, dv = pos_vel_err(rt, rt2.iloc[::2].set_axis(rt.index))
            ladder(out, obs, 'returned position', p1.max(), p2.max(), dp.max(), POS_FLOOR, ctx, 'trajectory_ladders')
            ladder(out, obs, 'returned velocity', v1.max(), v2e.max(), dv.max(), 1e-8 * (1 + ex['speed_max']), ctx, 'trajectory_ladders')
            if att_err(rt, tr).max() > 1e-12:
                out.append(vio('returned_attitude', f'returned attitude differs from the supplied one; {ctx}'))
            obs['forms_compared'] = obs.get('forms_compared', 0) + 1
            # inversion: strapdown from the first returned row
            inv = []
            for (ttk, rtk, imuk) in ((tt, rt, imu), (tt2, rt2, imu2)):
                inc = strapdown.compute_increments_from_imu(imuk, st)
                Ig = strapdown.Integrator(rtk.iloc[0])
                Ig.integrate(inc)
                inv.append(Ig.trajectory)
            pa, va = pos_vel_err(inv[0], rt)
            pb, vb = pos_vel_err(inv[1], rt2)
            aa, ab = att_err(inv[0], rt), att_err(inv[1], rt2)
            dpi, dvi = pos_vel_err(inv[0], inv[1].iloc[::2].set_axis(inv[0].index))
            dai = att_err(inv[0], inv[1].iloc[::2].set_axis(inv[0].index))
            nst = len(tt2)
            ladder(out, obs, 'strapdown inversion, position', pa.max(), pb.max(), dpi.max(), nst * EPS * 6.4e6 * 10 + fl_acc * T ** 2, ctx, 'inversion_ladders')
            ladder(out, obs, 'strapdown inversion, velocity', va.max(), vb.max(), dvi.max(), nst * EPS * 3000 + fl_acc * T, ctx, 'inversion_ladders')
            ladder(out, obs, 'strapdown inversion, attitude', aa.max(), ab.max(), dai.max(), nst * EPS * 100, ctx, 'inversion_ladders')
    # The interval integration of the gyro interpolant must not add an error of lower order than the interpolation itself:
    # measured on the unchanged tree the per-unit-time error of increment-type gyro readings falls 16x per halving (ratio
    # 0.060..0.064 over 90 ladders); a wrong coning coefficient in the interval integration is second order (ratio 0.25), i.e. it
    # "shrinks" too and only the order exposes it.  Required: ratio <= 0.125 while well above the floor.
    for form in ('pos+vel', 'pos', 'init+vel'):
        e_h, e_h2 = interior_err[(form, 'increment', 'gyro')][0], interior_err2[(form, 'increment', 'gyro')]
        if e_h > 1e-9:
            obs['increment_order_checked'] = obs.get('increment_order_checked', 0) + 1
            obs['max_gyro_increment_ratio_x1000'] = max(obs.get('max_gyro_increment_ratio_x1000', 0), int(1000 * e_h2 / e_h))
            if e_h2 > 0.125 * e_h:
                out.append(vio('increment_integral', f'gyro: increment-type error per unit time falls only from {e_h:.3e} to {e_h2:.3e} when the '
                               f'interval is halved (form={form}, h={h}): the interval integration adds an error of lower order than the '
                               f'interpolation (expected ratio ~0.06)'))
        # same for the accelerometer increments (third order: ratio 0.125..0.137 over 217 calibration ladders; a wrong cross term in
        # the specific-force series gives 0.25).  Only at h = 100 ms and for errors >= 1e-4 m/s^2, where the spline-noise floor
        # (~2e-6 m/s^2 at 50 ms) cannot distort the ratio.
        a_h, a_h2 = interior_err[(form, 'increment', 'accel')][0], interior_err2[(form, 'increment', 'accel')]
        if h == 0.1 and a_h >= 1e-4:
            obs['accel_increment_order_checked'] = obs.get('accel_increment_order_checked', 0) + 1
            obs['max_accel_increment_ratio_x1000'] = max(obs.get('max_accel_increment_ratio_x1000', 0), int(1000 * a_h2 / a_h))
            if a_h2 > 0.18 * a_h:
                out.append(vio('increment_integral', f'accel: increment-type error per unit time falls only from {a_h:.3e} to {a_h2:.3e} when the '
                               f'interval is halved (form={form}, h={h}): the interval integration of specific force adds an error of lower order '
                               f'than the interpolation (expected ratio ~0.13)'))
    return dict(h=h, T=T, extremes=ex, lat0=float(np.rad2deg(m.p['lat'][0])))


def run_long_closed(case, out, obs):
    """Minutes-long out-and-back paths (kilometres of latitude, back at the starting latitude at the last sample): the initial-position
    form must still describe the same motion as the other two (its latitude integration iterates on the meridian radius)."""
    from pyins import sim
    rng = np.random.Generator(np.random.PCG64(case['seed']))
    h = case['h']
    T = float(rng.choice([200.0, 300.0, 400.0]))
    m, ex = TM.random_motion(rng, T, aggressive=0.3, closed=True, gentle=False)
    errs, rts = [], []
    for hh in (h, h / 2):
        n = int(round(T / hh))
        tt = np.arange(n + 1) * hh
        tr = m.trajectory(tt)
        rt, imu = sim.generate_imu(tt, tr[LLA].values[0].copy(), tr[RPH].values, tr[VEL].values, sensor_type=str(rng.choice(['rate', 'increment'])))
        p, v = pos_vel_err(rt, tr)
        errs.append(p.max())
        rts.append(rt)
    dp = pos_vel_err(rts[0], rts[1].iloc[::2].set_axis(rts[0].index))[0].max()
    obs['long_closed_paths'] = 1
    obs['max_long_closed_pos_err_um'] = int(1e6 * errs[0])
    ctx = f'h={h} T={T:.0f} lat0={np.rad2deg(m.p["lat"][0]):.1f} latitude excursion {m.p["lat"][2][0] * 6.37e6:.0f} m'
    ladder(out, obs, 'returned position of the initial-position form on a long out-and-back path', errs[0], errs[1], dp, POS_FLOOR, ctx, 'trajectory_ladders')
    return dict(h=h, T=T, excursion_m=float(m.p['lat'][2][0] * 6.37e6))


def run_rest(case, out, obs):
    from pyins import sim
    rng = np.random.Generator(np.random.PCG64(case['seed']))
    h = case['h']
    n = 120
    frng = np.random.Generator(np.random.PCG64(case['seed'] + 31))
    t0 = float(frng.choice([0.0, 120.0, 3600.0, 86400.0]))
    mode = str(frng.choice(['uniform', 'uniform', 'jitter', 'two_rate']))
    if case['seed'] % 10 == 7:
        # a sampling clock that drifts by a few ppm over a long record: neighbouring intervals differ by 3e-13 s, first and last by 2e-8 s
        mode, n, h, t0 = 'drift', 60001, 0.01, 0.0
        obs['rest_slow_clock_drift'] = 1
    tt = forms.stamps(n - 1, h, frng, mode, t0=t0) if mode != 'drift' else np.r_[0.0, np.cumsum(h * (1 + 2e-6 * np.arange(n - 1) / (n - 1)))]
    obs['rest_stamps_not_from_zero'] = int(t0 != 0)
    obs['rest_stamps_irregular'] = int(mode != 'uniform')
    hmin = float(np.diff(tt).min())
    lla = np.array([rng.uniform(-85, 85), rng.uniform(-180, 180), rng.uniform(-500, 20000)])
    rph = np.array([rng.uniform(-180, 180), rng.uniform(-85, 85), rng.uniform(-180, 180)])
    r, p, hd = np.deg2rad(rph)
    cr, sr, cp, sp, ch, sh = np.cos(r), np.sin(r), np.cos(p), np.sin(p), np.cos(hd), np.sin(hd)
    C = np.array([[ch * cp, ch * sp * sr - sh * cr, ch * sp * cr + sh * sr], [sh * cp, sh * sp * sr + ch * cr, sh * sp * cr - ch * sr],
                  [-sp, cp * sr, cp * cr]])
    w = C.T @ W.rate_n(lla[0])
    f = -C.T @ np.array([0, 0, W.gravity(lla[0], lla[2])])
    L, Rr, V = np.tile(lla, (n, 1)), np.tile(rph, (n, 1)), np.zeros((n, 3))
    # rounding of the position (eps * 6.4e6 m) and of the stamps themselves (eps * t0 at the inertial speed ~465 m/s), differentiated twice
    tol_a = 100 * EPS * (6.4e6 + 465.0 * tt[-1]) / hmin ** 2
    for form, (a, b) in ({'pos+vel': (L, V), 'pos': (L, None), 'init+vel': (lla.copy(), V)} if mode != 'drift' else {'pos+vel': (L, V)}).items():
        for st in ('rate', 'increment'):
            tr, imu = sim.generate_imu(tt, a, Rr, b, sensor_type=st)
            sc = np.r_[tt[1] - tt[0], np.diff(tt)][:, None] if st == 'increment' else 1.0
            eg = np.abs(imu[GY].values / sc - w).max()
            ea = np.abs(imu[AC].values / sc - f).max()
            obs['at_rest_checked'] = obs.get('at_rest_checked', 0) + 1
            obs['max_rest_accel_over_tol_x1000'] = max(obs.get('max_rest_accel_over_tol_x1000', 0), int(1000 * ea / tol_a))
            if eg > 1e-11:
                out.append(vio('rest_gyro', f'body at rest: gyro differs from C^T w_ie by {eg:.3e} rad/s; form={form} sensor={st} lla={lla.tolist()} rph={rph.tolist()}'))
            if ea > tol_a:
                out.append(vio('rest_accel', f'body at rest: accelerometer differs from -C^T g_n by {ea:.3e} m/s^2 (tol {tol_a:.1e}); form={form} sensor={st} '
                               f'lla={lla.tolist()} rph={rph.tolist()} h={h}'))
            pe, ve = pos_vel_err(tr, pd.DataFrame(np.column_stack([L, V, Rr]), index=tr.index, columns=LLA + VEL + RPH))
            if pe.max() > 1e-6 or ve.max() > 100 * EPS * 6.4e6 / hmin:
                out.append(vio('rest_trajectory', f'body at rest: returned trajectory moves ({pe.max():.2e} m, {ve.max():.2e} m/s); form={form}'))
    return dict(h=h, lla=lla.tolist(), rph=rph.tolist())


def run_sine(case, out, obs):
    from pyins import sim, strapdown
    from scipy.integrate import solve_ivp
    rng = np.random.Generator(np.random.PCG64(case['seed']))
    dt = float(rng.choice([0.1, 0.05]))
    total = float(rng.uniform(10, 25))
    lla0 = [float(rng.uniform(-80, 80)), float(rng.uniform(-180, 180)), float(rng.uniform(0, 5000))]
    vm = rng.uniform(-40, 40, 3) * np.array([1, 1, 0.05])
    va = rng.uniform(0, 8, 3) * np.array([1, 1, 0.2])
    period = float(rng.uniform(8, 60))
    phase = rng.uniform(0, 360, 3)
    st = str(rng.choice(['rate', 'increment']))
    res = []
    for d in (dt, dt / 2):
        res.append(sim.generate_sine_velocity_motion(d, total, lla0, vm, va, period, phase, sensor_type=st))
    obs['sine_motion_checked'] = 1
    ctx = f'dt={dt} total={total:.1f} lla0={lla0} v_mean={vm.tolist()} v_ampl={va.tolist()} period={period:.1f} sensor={st}'

    def vel(t):
        return vm + va * np.sin(2 * np.pi * np.asarray(t)[..., None] / period + np.deg2rad(phase))
    for tr, imu in res:
        t = np.asarray(tr.index, float)
        v = vel(t)
        if np.abs(tr[VEL].values - v).max() > 1e-12 * (1 + np.abs(v).max()):
            out.append(vio('sine_velocity', f'returned velocity differs from V_mean + V_ampl sin(2 pi t / period + phase) by {np.abs(tr[VEL].values - v).max():.3e}; {ctx}'))
        head = np.rad2deg(np.arctan2(v[:, 1], v[:, 0]))
        pitch = np.rad2deg(np.arctan2(v[:, 2], np.hypot(v[:, 0], v[:, 1])))
        if np.abs(tr['roll'].values).max() != 0 or np.abs((tr['heading'].values - head + 180) % 360 - 180).max() > 1e-9 or np.abs(tr['pitch'].values - pitch).max() > 1e-9:
            out.append(vio('sine_attitude', f'roll / pitch / heading are not (0, velocity-aligned); {ctx}'))
        if abs(t[1] - t[0] - (t[-1] - t[0]) / (len(t) - 1)) > 1e-12 or t[0] != 0 or t[-1] >= total:
            out.append(vio('sine_stamps', f'time stamps are not arange(0, total_time, dt); {ctx}'))
    # positions: own integration of the closed-form velocity on the ellipsoid
    def rhs(t, y):
        v = vel(np.array(t))
        rn, _, rp = W.radii(np.rad2deg(y[0]), y[2])
        return [v[0] / rn, v[1] / rp, -v[2]]
    errs = []
    for tr, imu in res:
        t = np.asarray(tr.index, float)
        sol = solve_ivp(rhs, (0, t[-1]), [np.deg2rad(lla0[0]), np.deg2rad(lla0[1]), lla0[2]], t_eval=t, method='DOP853', rtol=1e-12, atol=1e-14)
        ref = tr.copy()
        ref['lat'], ref['lon'], ref['alt'] = np.rad2deg(sol.y[0]), np.rad2deg(sol.y[1]), sol.y[2]
        errs.append(pos_vel_err(tr, ref)[0].max())
    dp = pos_vel_err(res[0][0], res[1][0].iloc[::2].set_axis(res[0][0].index))[0].max()
    ladder(out, obs, 'sine motion position vs own integration', errs[0], errs[1], dp, POS_FLOOR, ctx, 'trajectory_ladders')
    # inversion
    inv = []
    for tr, imu in res:
        Ig = strapdown.Integrator(tr.iloc[0])
        Ig.integrate(strapdown.compute_increments_from_imu(imu, st))
        inv.append(Ig.trajectory)
    pa, va_ = pos_vel_err(inv[0], res[0][0])
    pb, vb = pos_vel_err(inv[1], res[1][0])
    dpi, dvi = pos_vel_err(inv[0], inv[1].iloc[::2].set_axis(inv[0].index))
    fl_acc = 100 * EPS * 6.4e6 / (dt / 2) ** 2
    ladder(out, obs, 'sine motion strapdown inversion, position', pa.max(), pb.max(), dpi.max(), len(inv[1]) * EPS * 6.4e7 + fl_acc * total ** 2, ctx, 'inversion_ladders')
    ladder(out, obs, 'sine motion strapdown inversion, velocity', va_.max(), vb.max(), dvi.max(), len(inv[1]) * EPS * 3000 + fl_acc * total, ctx, 'inversion_ladders')
    return dict(dt=dt, total=total, lla0=lla0, sensor=st)


def run_case(case):
    obs = {}
    out = []
    if STATE.get('selftest', 0) > 1e-5:
        return dict(violations=[], obs=obs, nontrivial=False, inconclusive=f'truth-motion self-test disagreement {STATE["selftest"]:.2e}')
    try:
        sample = {'motion': run_motion, 'rest': run_rest, 'sine': run_sine, 'long_closed': run_long_closed}[case['cls']](case, out, obs)
    except Exception as e:
        import traceback
        return dict(violations=[vio('exception', f'{type(e).__name__}: {e}', tb=traceback.format_exc()[-1200:])], obs=obs)
    return dict(violations=out[:12], obs=obs, nontrivial=True, sample=dict(cls=case['cls'], **sample))
