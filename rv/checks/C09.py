"""C09 - feedback filter handles every IMU/measurement interleaving exactly once.

One case = one run of the real filters.run_feedback_filter on a seeded schedule
(rv.workloads.schedules) under the boundary event recorder (rv.instrument.events)
and the sys.monitoring loop monitor (bounded progress in loop iterations, cursor
locals read from the running frame).  The recorded history is checked offline by
rv.oracles.seqmodels.check_feedback (exactly-once, order, conservation).
"""
import numpy as np

from rv.core import vio
from rv.instrument import events, linebudget, patch
from rv.oracles import seqmodels
from rv.workloads import schedules

ID = 'C09'
RULE = ('seeded schedules: IMU stamps uniform / jittered / with 1..3 data gaps, step 10..200 ms, 30..140 increments; up to '
        'three sensors (one per class) with epochs on stamps, fractional, 2..6 clustered inside one or two adjacent IMU '
        'intervals, nextafter neighbours of stamps / start / end, outside the span, near the tail, denser than the IMU, shared '
        'between sensors, empty streams, measurements None / []; time_step from 0.1x the IMU interval to 2x the span; both '
        'altitude modes; sensor models none / bias / full; non-trivial = anything but (uniform IMU, all epochs on stamps >= 1 '
        'interval apart, time_step 1 s), the one schedule of the existing tests; distinct = distinct seeds'
        ' Round 3: every third schedule is run a second time with the same measurement / model objects and judged again.'
        " Round 4: the filter's internal integrator starts with a capacity of 2..41 rows in every other run (growth boundaries inside short records); the two sensor triads configured independently (none / bias / scale-misalignment only / full); records of 1..3 increments."
        ' Round 5: measurement tables whose rows are not in time order; with_altitude as numpy.bool_ in 40 % of the schedules; sensors listed in any order.')
ASSUMPTIONS = ['termination is decided as bounded progress: while-header visits <= 2 (increments + epochs in span) + 4 (sys.monitoring), '
               'never by wall clock', 'two streams of the same measurement class are outside the documented interface and not generated']
REQUIRED_OBS = ['prelude_runs_on_a_shorter_span', 'reruns_with_same_objects', 'schedules_with_permuted_tables', 'schedules_with_tiny_record', 'schedules_with_unsorted_measurement_rows', 'runs_with_small_integrator_capacity', 'schedules_with_independent_triad_models', 'runs_completed', 'loop_iterations', 'integrate_events', 'predict_events', 'hit_events', 'correct_events',
                'schedules_with_clusters', 'schedules_with_gaps', 'schedules_without_measurements', 'epochs_inside_total',
                'time_step_below_imu_interval', 'offline_checks']
REQUIRED_CLASSES = {'all': ['uniform', 'jitter', 'gaps']}
LOOP = {}


def setup():
    patch.import_all()
    from pyins import filters
    events.install()
    LOOP['m'] = linebudget.LoopMonitor(filters.run_feedback_filter, ['increments_index', 'measurement_time_index'])
    LOOP['m'].install()
    schedules.fine_truth()


def cases(seed, tier):
    n = 480 if tier == 'quick' else 12000
    out = []
    for i in range(n):
        s = int(seed) * 1000003 + i
        rng = np.random.Generator(np.random.PCG64(s))
        out.append(dict(seed=s, cls=str(rng.choice(['uniform', 'jitter', 'gaps']))))
    return out


def run_filter(S, loop, initial=None):
    from pyins import filters, sim
    import pandas as pd
    traj = S['traj']
    if initial is None:
        err = pd.Series(S['init_err'], index=['north', 'east', 'down', 'VN', 'VE', 'VD', 'roll', 'pitch', 'heading'])
        initial = sim.perturb_pva(traj.iloc[0], err)
    n_epochs = S['describe']['epochs_inside']
    # every visit of any while header of the function counts; a nested epoch loop evaluates its header once more per
    # outer iteration, hence the factor 2 (the bound stays linear in the size of the schedule)
    budget = 2 * (len(S['increments']) + n_epochs) + 4
    loop.reset(budget, 400 * budget + 5000)
    # "any IMU sampling" includes any record LENGTH: the filter's internal integrator grows its buffers at 10000 * 2^k rows; with a small
    # initial capacity the growth boundaries (a batch or a predict landing exactly on a full buffer) fall inside these short records
    from pyins import strapdown
    old_size = strapdown.Integrator.INITIAL_SIZE
    cap = S.get('integrator_capacity')
    if cap:
        strapdown.Integrator.INITIAL_SIZE = int(cap)
    events.start()
    try:
        r = filters.run_feedback_filter(initial, 5, 1, 0.5, 1.0, S['increments'], S['gyro_model'], S['accel_model'],
                                        measurements=S['measurements'], time_step=S['time_step'],
                                        with_altitude=S['with_altitude'])
        return r, events.stop(), None
    except linebudget.NonTermination as e:
        return None, events.stop(), vio('no_bounded_progress', f'loop exceeded its logical budget: {e}; last cursors '
                                        f'{loop.cursors[-3:]}', budget=budget)
    except Exception as e:
        import traceback
        return None, events.stop(), vio('exception', f'{type(e).__name__}: {e}', tb=traceback.format_exc()[-1500:])
    finally:
        strapdown.Integrator.INITIAL_SIZE = old_size


def run_case(case):
    S = schedules.build(case['seed'])
    if case['seed'] % 2 == 1:
        S['integrator_capacity'] = 2 + (case['seed'] * 7) % 40
    loop = LOOP['m']
    d = S['describe']
    obs = {}
    import copy
    frozen = []
    for m_ in S['sensors']:
        f_ = copy.copy(m_)
        f_.data = m_.data.copy()
        frozen.append(f_)
    if case['seed'] % 3 == 2 and len(S['increments']) >= 12:
        # Round 6: a first call on the first part of the record, then the whole record, with the SAME measurement / model objects
        k_ = int(len(S['increments']) * (0.25 + 0.35 * ((case['seed'] // 3) % 5) / 4))
        run_filter(dict(S, increments=S['increments'].iloc[:k_], describe=dict(S['describe'])), loop)
        obs['prelude_runs_on_a_shorter_span'] = 1
    r, ev, err = run_filter(S, loop)
    out = []
    if err is not None:
        out.append(err)
    obs['loop_iterations'] = loop.iterations
    obs['max_iterations_over_budget_x1000'] = int(1000 * loop.iterations / max(1, loop.iter_budget))
    obs['integrate_events'] = sum(e['kind'] == 'integrate' for e in ev)
    obs['predict_events'] = sum(e['kind'] == 'predict' for e in ev)
    obs['hit_events'] = sum(e['kind'] == 'compute_matrices' and e['hit'] for e in ev)
    obs['miss_events'] = sum(e['kind'] == 'compute_matrices' and not e['hit'] for e in ev)
    obs['correct_events'] = sum(e['kind'] == 'correct' for e in ev)
    obs['epochs_inside_total'] = d['epochs_inside']
    obs['runs_with_small_integrator_capacity'] = int(bool(S.get('integrator_capacity')))
    obs['schedules_with_independent_triad_models'] = int(bool(d.get('mixed_models')))
    obs['schedules_with_unsorted_measurement_rows'] = int(bool(d.get('rows_unsorted')))
    obs['schedules_with_tiny_record'] = int(bool(d.get('tiny_record')))
    obs['schedules_with_permuted_tables'] = int(bool(d.get('tables_permuted')))
    obs['schedules_with_clusters'] = int(d['max_epochs_in_one_interval'] >= 2)
    obs['schedules_with_gaps'] = int(d['imu'] == 'gaps')
    obs['schedules_without_measurements'] = int(d['measurements_arg'] != 'list')
    obs['time_step_below_imu_interval'] = int(d['time_step'] < d['median_dt'])
    if r is not None:
        obs['runs_completed'] = 1
        obs['offline_checks'] = 1
        out.extend(seqmodels.check_feedback(ev, r, S['increments'], frozen, S['start'], loop))
        if case['seed'] % 3 == 0 and not out:
            # the same measurement and model objects handed to the filter again: the second run must consume every increment and sample
            # exactly once too (a cursor / memo kept inside the objects only shows then)
            r2, ev2, err2 = run_filter(S, loop)
            obs['reruns_with_same_objects'] = 1
            if err2 is not None:
                out.append(dict(err2, message='[second run with the same objects] ' + err2['message']))
            else:
                out.extend(dict(v, message='[second run with the same objects] ' + v['message'])
                           for v in seqmodels.check_feedback(ev2, r2, S['increments'], frozen, S['start'], loop))
                if not np.array_equal(r['trajectory'].values, r2['trajectory'].values) or not np.array_equal(r['trajectory_sd'].values, r2['trajectory_sd'].values):
                    out.append(vio('rerun_differs', 'a second run with the same measurement / model objects returns a different trajectory or sd table'))
    # interleaving signature: how many measurement epochs fall into each sampling interval (run-length coded), the relation of the covariance
    # step to the sampling interval, and which sensors share epochs - the evidence reports how many DISTINCT interleavings were driven
    t_ = S['times']
    all_e = np.unique(np.concatenate([np.asarray(m_.data.index, float) for m_ in S['sensors']] + [np.array([])]))
    ins = all_e[(all_e >= t_[0]) & (all_e < t_[-1])]
    per = np.bincount(np.searchsorted(t_, ins, side='right'), minlength=len(t_) + 1)[1:len(t_)] if len(ins) else np.zeros(len(t_) - 1, int)
    on_stamp = int(np.isin(ins, t_).sum())
    rl = []
    for v_ in per.tolist():
        if rl and rl[-1][0] == v_:
            rl[-1][1] += 1
        else:
            rl.append([v_, 1])
    shared_ = sum(len(np.intersect1d(np.asarray(a_.data.index, float), np.asarray(b_.data.index, float))) > 0
                  for i_, a_ in enumerate(S['sensors']) for b_ in S['sensors'][i_ + 1:])
    ratio = d['time_step'] / d['median_dt']
    band = 'ts<dt' if ratio < 0.999 else 'ts=dt' if ratio < 1.001 else 'ts<10dt' if ratio < 10 else 'ts>=10dt'
    signature = f"{d['imu']}|{band}|on{on_stamp}|sh{shared_}|" + ','.join(f'{a_}x{b_}' for a_, b_ in rl)
    trivial = (d['imu'] == 'uniform' and d['max_epochs_in_one_interval'] <= 1 and abs(d['time_step'] - 1.0) < 1e-9
               and all(set(s['modes']) <= {'on'} for s in d['sensors']))
    for v in out:
        v.setdefault('detail', {})['schedule'] = d
    return dict(violations=out, obs=obs, nontrivial=not trivial, signatures=[signature], sample=dict(schedule=d, iterations=loop.iterations,
                                                                            events=len(ev)))


def classify(case, v):
    d = v.get('detail', {}).get('schedule', {})
    if d.get('max_epochs_in_one_interval', 0) >= 2 or any('tail' in s['modes'] or 'dense' in s['modes'] or 'edges' in s['modes']
                                                          for s in d.get('sensors', [])):
        if v['kind'] in ('cursor_backwards', 'increments_not_exactly_once', 'empty_batch', 'trajectory_index', 'exception',
                         'measurement_not_exactly_once', 'innovation_rows', 'table_index_order'):
            return 'fb:one-epoch-per-iteration'
    return None
