"""C05 - error-state coordinates, correction and output transforms agree.

Monitors: postconditions on the real InsErrorModel.transform_to_output /
transform_to_internal / correct_pva, transform.compute_state_difference and
sim.perturb_pva: left-inverse identity (rounding-level, kappa = cond(T)),
order-of-residual ladders (error scale s0 .. s0/32: the residual between
the actual state change and the linear prediction must fall with slope >= 1.6),
perturb-then-correct ladder, and the 2-D structural invariants (bitwise).
"""
import numpy as np
import pandas as pd

from rv.core import vio
from rv.instrument import patch
from rv.workloads import forms

ID = 'C05'
RULE = ('seeded random pva: |lat|<=85, lon incl. the +-180 region, alt 0..20 km, speed 0..300 m/s incl. vertical, '
        'roll/heading anywhere, |pitch|<=85 (class steep: 70..85); random internal error vectors at scale '
        's0 = (10 m, 1 m/s, 0.5 deg) and 5 halvings; both altitude modes; a fifth of the Pva series with their labels in another order; every other case on a long-lived model with a long-lived Pva object overwritten in place; non-trivial = not the single '
        'hand-written state of the existing test; distinct = generator parameters'
        ' Round 4: the output transform of a 4-row Trajectory table against the per-row matrices (and its 2-D zero rows); closed ends of the domain (|lat| = 85, |pitch| = 85, zero / 300 m/s velocity, cardinal roll / heading).'
        ' Round 5: with_altitude as bool or numpy.bool_; the angle differences reported by compute_state_difference must themselves lie in (-180, 180] (no own re-wrapping), roll / heading within 0.01 deg of the cut.')
ASSUMPTIONS = ['second order is decided by extracting the first-order coefficient of the residual (Richardson on rungs 1/4, 1/8, 1/16) '
               'and requiring it below 1e-5 of the linear term; log-log slopes are recorded as evidence only']
REQUIRED_OBS = ['difference_angles_in_range_checked', 'table_form_compared', 'pva_labels_permuted', 'reused_model_and_pva_object', 'tiny_corrections', 'left_inverse', 'correct_ladder', 'perturb_correct_ladder', 'twoD_rows_zero', 'twoD_alt_vd_frozen',
                'ladder_groups_above_floor']
REQUIRED_CLASSES = {'all': ['generic3d', 'generic2d', 'steep3d', 'steep2d', 'south_west', 'slow']}
EPS = np.finfo(float).eps
LIVE = {}
NED = ['north', 'east', 'down']
VEL = ['VN', 'VE', 'VD']
RPH = ['roll', 'pitch', 'heading']
OUT = NED + VEL + RPH


def setup():
    patch.import_all()
    from pyins import error_model, transform, sim
    for n in ['transform_to_output', 'transform_to_internal', 'correct_pva']:
        patch.wrap(error_model.InsErrorModel, n, counter='calls_' + n)
    patch.wrap(transform, 'compute_state_difference', counter='calls_compute_state_difference')
    patch.wrap(sim, 'perturb_pva', counter='calls_perturb_pva')


def cases(seed, tier):
    classes = ['generic3d', 'generic2d', 'steep3d', 'steep2d', 'south_west', 'slow']
    n = 1500 if tier == 'quick' else 40000
    return [dict(seed=int(seed) * 1000003 + i, cls=classes[i % len(classes)]) for i in range(n)]


def gen_pva(rng, cls):
    lat = rng.uniform(-85, 85)
    lon = rng.uniform(-180, 180)
    if cls == 'south_west':
        lat, lon = -abs(lat), -abs(lon)
    if rng.random() < 0.1:
        lon = rng.choice([-179.9999, 179.9999])
    alt = rng.uniform(0, 20000)
    spd = rng.uniform(0, 300) if cls != 'slow' else rng.uniform(0, 1)
    d = rng.standard_normal(3)
    v = spd * d / np.linalg.norm(d)
    roll = rng.uniform(-180, 180)
    head = rng.uniform(-180, 180)
    if rng.random() < 0.15:
        head = rng.choice([-1, 1]) * rng.uniform(179.7, 180)
    pitch = rng.uniform(-70, 70) if 'steep' not in cls else rng.choice([-1, 1]) * rng.uniform(70, 85)
    # the closed ends of the quantified domain themselves (a uniform draw practically never comes within 0.01 deg of them)
    erng = np.random.Generator(np.random.PCG64(int(rng.integers(0, 2 ** 31))))
    if erng.random() < 0.15:
        k = int(erng.integers(0, 6))
        if k == 0:
            lat = float(erng.choice([-85.0, 85.0]))
        elif k == 1 and 'steep' in cls:
            pitch = float(erng.choice([-85.0, 85.0]))
        elif k == 2:
            roll, head = float(erng.choice([-180.0, 180.0, 0.0, 90.0, -90.0, 179.99, -179.99])), float(erng.choice([-180.0, 180.0, 0.0, 90.0, -90.0, 179.99, -179.99]))
        elif k == 3:
            v = np.array([0.0, 0.0, 0.0]) if erng.random() < 0.5 else 300.0 * np.eye(3)[int(erng.integers(0, 3))] * float(erng.choice([-1, 1]))
        elif k == 4:
            alt = float(erng.choice([0.0, 20000.0]))
        else:
            lat, pitch = 0.0, 0.0
    return pd.Series([lat, lon, alt, *v, roll, pitch, head],
                     index=['lat', 'lon', 'alt'] + VEL + RPH, name=float(rng.uniform(0, 100)))


def wrap180(d):
    return (np.asarray(d, float) + 180.0) % 360.0 - 180.0


def first_order_coefficient(R):
    """R: rows = signed residual vectors at s = 1, 1/2, 1/4, ... ;  r(s) = a s + b s^2 + c s^3 + O(s^4).

    Richardson elimination of the quadratic and cubic terms on the rungs 1/4, 1/8, 1/16:
    D(s) = r(s) - 4 r(s/2) = -a s + c s^3 / 2,   D(s) - 8 D(s/2) = 3 a s.
    (A least-squares slope of |r| is not used to decide: a cubic term of opposite sign bends it,
    seen in calibration - slopes 1.3..1.6 on cases whose finer rungs return to 2.)
    """
    out = []
    for k in (2, 3):                       # rungs (1/4,1/8,1/16) and (1/8,1/16,1/32)
        s1 = 0.5 ** k
        D1 = R[k] - 4 * R[k + 1]
        D2 = R[k + 1] - 4 * R[k + 2]
        out.append((D1 - 8 * D2) / (3 * s1))
    return out


def loglog_slope(ss, rr, floor):
    idx = np.nonzero(rr > 100 * floor)[0]
    if len(idx) < 3:
        return None
    idx = idx[-3:]
    return float(np.polyfit(np.log(ss[idx]), np.log(rr[idx]), 1)[0])


A_TOL = 1e-6        # allowed first-order coefficient, as a fraction of the linear term
GROUPS = {'pos': slice(0, 3), 'vel': slice(3, 6), 'att': slice(6, 9)}
NOMINAL = {'pos': 10.0, 'vel': 1.0, 'att': 0.5}


def run_case(case):
    from pyins.error_model import InsErrorModel
    from pyins import transform, sim
    rng = np.random.Generator(np.random.PCG64(case['seed']))
    cls = case['cls']
    wa = '2d' not in cls if cls.endswith('d') else bool(rng.integers(0, 2))
    em = InsErrorModel(forms.flag(np.random.Generator(np.random.PCG64(case['seed'] + 3)), wa))       # bool or numpy.bool_
    pva = gen_pva(rng, cls)
    out = []
    obs = {}
    frng = np.random.Generator(np.random.PCG64(case['seed'] + 11))
    if frng.random() < 0.2:
        # the documented Pva type is a label set: same state, labels in another order
        pva = pva[list(frng.permutation(list(pva.index)))]
        obs['pva_labels_permuted'] = 1
    if case['seed'] % 2 == 1:
        # a long-lived model and a long-lived Pva object overwritten in place between uses (a memo keyed on object identity, or a
        # retained reference to the caller's Series, only shows on such a history): warm up on another state, then overwrite
        em, holder = LIVE.setdefault(wa, (InsErrorModel(np.bool_(wa)), forms.Reused()))
        warm = gen_pva(frng, cls)[list(pva.index)]
        live = holder.put(warm)
        em.transform_to_output(live)
        em.transform_to_internal(live)
        em.correct_pva(live, np.zeros(em.n_states))
        pva = holder.put(pva)
        obs['reused_model_and_pva_object'] = 1

    def bump(k, m=1):
        obs[k] = obs.get(k, 0) + int(m)

    def fail(kind, msg):
        out.append(vio(kind, msg + f' [pva={pva.values.tolist()} with_altitude={wa}]'))

    ss = 0.5 ** np.arange(6)

    def judge(R, lin, floors, kind, what, extra):
        a4, a8 = first_order_coefficient(R)
        for g, sl in GROUPS.items():
            scale = max(np.abs(lin[sl]).max(), NOMINAL[g])
            # a genuine first-order component shows in both estimates; the O(s^4) remainder is 8x smaller
            # in the finer one.  Rounding floor of the extraction: (1 + 4 + 8 + 32) floor / (3 s1)
            f4 = (np.abs(a4[sl]).max() - 60 * floors[g]) / scale
            f8 = (np.abs(a8[sl]).max() - 120 * floors[g]) / scale
            frac = min(f4, f8)
            a = a8 if f8 <= f4 else a4
            obs['max_first_order_fraction'] = max(obs.get('max_first_order_fraction', 0.0), float(frac))
            slp = loglog_slope(ss, np.abs(R[:, sl]).max(axis=1), floors[g])
            if slp is None:
                bump('ladder_groups_at_floor')
            else:
                bump('ladder_groups_above_floor')
                obs['min_slope_x1000'] = min(obs.get('min_slope_x1000', 10 ** 9), int(slp * 1000))
            if frac > A_TOL:
                fail(kind, f'{g}: {what} has a first-order component: coefficient {a[sl].tolist()} per unit s, '
                     f'{frac:.2e} of the linear term {scale:.3g} (residuals {np.abs(R[:, sl]).max(axis=1).tolist()} '
                     f'at s={ss.tolist()}, log-log slope {slp}); {extra}')

    n = em.n_states
    T_oi = em.transform_to_output(pva)        # internal -> output, (9, n)
    T_io = em.transform_to_internal(pva)      # output -> internal, (n, 9)
    if T_oi.shape != (9, n) or T_io.shape != (n, 9):
        fail('shape', f'T_oi {T_oi.shape} T_io {T_io.shape}')
        return dict(violations=out, obs=obs)
    # the same map for a Trajectory (table) argument: row i of the stacked result is the matrix of row i (and the 2-D rows are zero there too)
    others = [gen_pva(frng, cls)[list(pva.index)] for _ in range(3)]
    table = pd.DataFrame([pva.values] + [o.values for o in others], columns=list(pva.index), index=pd.Index(np.arange(4) * 0.5, name='time'))
    Tt = em.transform_to_output(table)
    bump('table_form_compared')
    if Tt.shape != (4, 9, n):
        fail('table_form', f'transform_to_output(table of 4 rows) has shape {Tt.shape}')
    else:
        for i_, row_ in enumerate([pva] + others):
            Ti = em.transform_to_output(row_)
            if not np.allclose(Tt[i_], Ti, rtol=1e-12, atol=1e-12 * max(1.0, np.abs(Ti).max())):
                fail('table_form', f'row {i_} of transform_to_output(table) differs from transform_to_output(that row) by {np.abs(Tt[i_] - Ti).max():.3e} '
                     f'(row state {row_.values.tolist()})')
                break
        if not wa and np.abs(Tt[:, [2, 5], :]).max() > 1e-9 * max(1.0, np.abs(table[VEL].values).max()):
            fail('twoD_rows', f'down / VD rows of the 2-D output transform of a TABLE are not zero: max {np.abs(Tt[:, [2, 5], :]).max():.3e}')
    kappa = np.linalg.cond(InsErrorModel(True).transform_to_output(pva))
    E = T_io @ T_oi - np.eye(n)
    bump('left_inverse')
    bound = 64 * EPS * kappa
    obs['max_left_inverse_ratio'] = float(np.abs(E).max() / bound)
    if np.abs(E).max() > bound:
        fail('left_inverse', f'transform_to_internal @ transform_to_output - I = {np.abs(E).max():.3e} > {bound:.3e} (cond {kappa:.2e})')

    if not wa:
        bump('twoD_rows_zero')
        vmax = max(1.0, np.abs(pva[VEL].values).max())
        if np.abs(T_oi[[2, 5], :]).max() > 1e-9 * vmax:
            fail('twoD_rows', f'down / VD rows of the 2-D output transform are not zero: {T_oi[[2, 5], :].tolist()}')

    # ---- correction ladder -----------------------------------------------------------------
    # attitude error scaled by cos(pitch): the nonlinearity scale of Euler angles is phi / cos(pitch)
    cpitch = np.cos(np.deg2rad(pva.pitch))
    s0 = np.array([10.0] * 3 + [1.0] * 3 + [np.deg2rad(0.5) * cpitch] * 3)
    if not wa:
        s0 = s0[[0, 1, 3, 4, 6, 7, 8]]
    x0 = rng.standard_normal(n) * s0
    ss = 0.5 ** np.arange(6)
    R = []
    cp = np.cos(np.deg2rad(pva.pitch))
    floors = {'pos': 1e-8, 'vel': 1e-12 * (1 + np.abs(pva[VEL].values).max()), 'att': 1e-11 / cp ** 2}
    lin = T_oi @ x0
    for s in ss:
        x = s * x0
        corrected = em.correct_pva(pva, x)
        if sorted(corrected.index) != sorted(pva.index):
            fail('correct_labels', f'correct_pva returned labels {list(corrected.index)}')
            return dict(violations=out, obs=obs)
        if not wa:
            bump('twoD_alt_vd_frozen')
            if not (np.array([corrected.alt]).view(np.uint64) == np.array([pva.alt]).view(np.uint64)).all() or \
                    not (np.array([corrected.VD]).view(np.uint64) == np.array([pva.VD]).view(np.uint64)).all():
                fail('twoD_frozen', f'2-D correction changed altitude or VD: alt {pva.alt!r} -> {corrected.alt!r}, '
                     f'VD {pva.VD!r} -> {corrected.VD!r}')
        d = transform.compute_state_difference(pva, corrected)   # INS - corrected
        ang_ = d[RPH].values.astype(float)
        bump('difference_angles_in_range_checked')
        if (np.abs(ang_) > 180.0).any():
            fail('angle_range', f'the difference of the state and its correction reports angle differences {ang_.tolist()} outside (-180, 180] (roll {pva.roll!r} -> {corrected.roll!r}, '
                 f'heading {pva.heading!r} -> {corrected.heading!r})')
            return dict(violations=out, obs=obs)
        r = d[OUT].values.astype(float) - s * lin
        r[6:] = wrap180(r[6:])
        R.append(r)
    R = np.array(R)
    bump('correct_ladder')
    judge(R, lin, floors, 'correction_first_order',
          '|diff(pva, correct_pva(pva, s x)) - T_oi s x|', f'x0={x0.tolist()}')

    if not wa:
        # a correction of kilometres (coarse initial position) must still leave altitude and vertical velocity untouched
        xb = np.zeros(n)
        xb[:2] = rng.uniform(1500, 6000, 2) * rng.choice([-1, 1], 2)
        cb = em.correct_pva(pva, xb)
        bump('twoD_alt_vd_frozen')
        if not (np.array([cb.alt]).view(np.uint64) == np.array([pva.alt]).view(np.uint64)).all() or \
                not (np.array([cb.VD]).view(np.uint64) == np.array([pva.VD]).view(np.uint64)).all():
            fail('twoD_frozen', f'2-D correction by {xb[:2].tolist()} m changed altitude or VD: alt {pva.alt!r} -> {cb.alt!r}, VD {pva.VD!r} -> {cb.VD!r}')

    # ---- very small corrections: the linear term itself must still be there (a small-angle shortcut that drops it, a
    # threshold below which nothing is applied, ...).  Relative comparison, rounding floors per group.
    for t in (1e-4, 1e-6):
        x = t * x0
        corrected = em.correct_pva(pva, x)
        d = transform.compute_state_difference(pva, corrected)[OUT].values.astype(float)
        r = d - t * lin
        r[6:] = wrap180(r[6:])
        bump('tiny_corrections')
        for g, sl in GROUPS.items():
            size = np.abs(t * lin[sl]).max()
            tol = 1e-3 * size + 5 * floors[g]
            if np.abs(r[sl]).max() > tol and size > 20 * floors[g]:
                fail('tiny_correction_lost', f'{g}: a correction of size {size:.3e} changes the state by {d[sl].tolist()} instead of the predicted '
                     f'{(t * lin[sl]).tolist()} (|phi| = {np.linalg.norm(x[-3:]):.2e} rad); x0={x0.tolist()}')

    # ---- perturb with an output-space error, then correct with the internal vector ----------
    e0 = pd.Series(np.hstack([rng.standard_normal(3) * 10, rng.standard_normal(3),
                              rng.standard_normal(3) * 0.5 * cpitch]), index=OUT)
    if not wa:
        e0['down'] = 0.0
        e0['VD'] = 0.0
    R = []
    for s in ss:
        e = e0 * s
        p = sim.perturb_pva(pva, e)
        x = em.transform_to_internal(p) @ e.values
        c = em.correct_pva(p, x)
        d = transform.compute_state_difference(c, pva)
        r = d[OUT].values.astype(float)
        r[6:] = wrap180(r[6:])
        R.append(r)
    R = np.array(R)
    bump('perturb_correct_ladder')
    judge(R, e0.values, floors, 'perturb_correct_first_order',
          'residual of perturb-then-correct', f'e0={e0.values.tolist()}')
    return dict(violations=out, obs=obs, nontrivial=True,
                sample=dict(cls=cls, with_altitude=wa, pva=pva.values.tolist(), kappa=float(kappa),
                            min_slope=obs.get('min_slope_x1000', 0) / 1000))
