"""C15 - coning/sculling increments are high-order accurate body-frame integrals.

Monitor: postcondition on the real strapdown.compute_increments_from_imu against
the exact rotation vector / start-frame velocity integral of each interval
(rv.oracles.bodyint, DOP853 at rtol 1e-13), run over a halving ladder of the
sampling interval; the verdict is the least-squares order of the error over the
asymptotic rungs (linear signals: >= 3.5 for theta and for dv after adding the
documented neglected term a x (a x d) h^3 / 6; sinusoids: >= 2.0), plus the
structural postconditions (rows, stamps, dt bitwise).
"""
import numpy as np
import pandas as pd

from rv.core import vio
from rv.instrument import patch
from rv.oracles import bodyint
from rv.workloads import forms

ID = 'C15'
RULE = ('seeded random 3-axis signals: linear (a + b t, d + e t with non-parallel a, b, d, e up to ~3 rad/s, ~3 g over '
        'the span) and sinusoidal (per-axis amplitudes to 1.5 rad/s / 15 m/s^2 + gravity, frequencies 2..15 rad/s), '
        'rate and increment types (increment inputs are exact interval integrals), uniform and irregular stamps (random jitter +-50 %, one late sample on a regular clock, two rates, alternating, ramp, gap, odd first interval), '
        'a third of the Imu tables with permuted labelled columns plus an unrelated one, '
        'ladder h = 160 ms .. 0.3 ms (10 halving rungs, 8 intervals each; order fitted on the <= 4 finest usable rungs); non-trivial = every case (the existing test feeds '
        'constant readings only); distinct = generator parameters'
        ' Round 4: class long-excerpt - records of 70 000..270 000 samples: rows around every power of two, every multiple of 65536 and random rows must equal the same samples processed as a 14-sample excerpt (1e-12 relative).'
        ' Round 5: Imu frames of mixed dtypes (whole-number gyro rates stored as int64 next to float accelerometers).')
ASSUMPTIONS = ['reference integrals by DOP853 at rtol 1e-13; rungs used for the order fit (>= 3 consecutive) satisfy max(|w|, signal frequency) * 1.5 h <= 0.3 (linear) / 0.12 (sinusoid) '
               'and error >= 100x the oracle floor (4 eps of the increment)', 'orders required: 3.5 (linear signals, from the statement: exact through the cubic term); 2.0 for sinusoids (the docstring names no order; with jittered stamps the max-over-intervals error of a rate sensor fell as h^2.49 in a thorough run, observed range 2.5..3.0; every coefficient / sign slip is decided by the linear clause, the sinusoid clause only guards against a drop to first order)']
REQUIRED_OBS = ['rate_reversal_mid_interval', 'mixed_dtype_frames', 'excerpt_rows_compared', 'structure_checked', 'order_fits', 'rungs_evaluated', 'imu_columns_permuted', 'pattern_one_late', 'pattern_two_rate', 'pattern_alternating',
                'pattern_ramp', 'pattern_gap', 'pattern_late_first', 'pattern_jitter']
REQUIRED_CLASSES = {'all': ['long-excerpt', 'linear-rate-uniform', 'linear-rate-irregular', 'linear-increment-uniform', 'linear-increment-irregular',
                            'sine-rate-uniform', 'sine-rate-irregular', 'sine-increment-uniform', 'sine-increment-irregular']}
GY = ['gyro_x', 'gyro_y', 'gyro_z']
AC = ['accel_x', 'accel_y', 'accel_z']
TH = ['theta_x', 'theta_y', 'theta_z']
DV = ['dv_x', 'dv_y', 'dv_z']
HS = 0.16 * 0.5 ** np.arange(10)      # the two finest rungs (0.6, 0.3 ms) only serve the asymptotic order fit
PENDING = []
OBS = {}


def bump(k, m=1):
    OBS[k] = OBS.get(k, 0) + int(m)


def _post(ctx, args, kwargs, result):
    imu = args[0]
    bump('structure_checked')
    n = len(imu)
    if list(result.columns) != ['dt'] + TH + DV:
        PENDING.append(vio('columns', f'Increments columns {list(result.columns)}'))
        return
    if len(result) != n - 1:
        PENDING.append(vio('rows', f'{len(result)} increments for {n} IMU samples'))
        return
    if not np.array_equal(np.asarray(result.index), np.asarray(imu.index[1:])):
        PENDING.append(vio('stamps', 'increment rows are not stamped with the time of their (later) sample'))
    if not np.array_equal(result['dt'].values, np.diff(np.asarray(imu.index, float))):
        PENDING.append(vio('dt', 'dt column is not the interval length (bitwise)'))
    if not np.isfinite(result.values).all():
        PENDING.append(vio('nonfinite', 'non-finite increments'))


def setup():
    patch.import_all()
    from pyins import strapdown
    patch.wrap(strapdown, 'compute_increments_from_imu', post=_post)


def cases(seed, tier):
    classes = [c for c in REQUIRED_CLASSES['all'] if c != 'long-excerpt']
    n = 240 if tier == 'quick' else 8000
    pats = ['jitter', 'one_late', 'two_rate', 'alternating', 'ramp', 'gap', 'jitter', 'late_first']
    out = [dict(seed=int(seed) * 1000003 + i, cls=classes[i % 8], pattern=pats[(i // 8) % 8], shuffled=(i // 4) % 3 == 1) for i in range(n)]
    # records of 10^5 samples and more: every row must be what the same samples give in a short excerpt (row-local formula; a size-gated code
    # path - blocking, chunked temporaries - shows at its internal boundaries only)
    for i in range(4 if tier == 'quick' else 40):
        out.append(dict(seed=int(seed) * 1000003 + 500000 + i, cls='long-excerpt', cost=30))
    return out


def make_signal(rng, kind):
    if kind == 'linear':
        a = rng.uniform(-1, 1, 3) * 1.5
        b = rng.uniform(-1, 1, 3) * 1.0
        d = rng.uniform(-1, 1, 3) * 15
        e = rng.uniform(-1, 1, 3) * 10
        return bodyint.LinearSignal(a, b, d, e)
    return bodyint.SineSignal(rng.uniform(0.3, 1.5, 3) * rng.choice([-1, 1], 3), rng.uniform(2, 15, 3), rng.uniform(0, 6.28, 3),
                              rng.uniform(1, 15, 3) * rng.choice([-1, 1], 3), rng.uniform(2, 15, 3), rng.uniform(0, 6.28, 3),
                              np.array([0, 0, -9.8]))


def order_fit(hs, err, floor, admissible):
    m = admissible & (err > 100 * floor)
    idx = np.nonzero(m)[0]
    # longest run of consecutive admissible rungs
    best = []
    run = []
    for i in idx:
        if run and i == run[-1] + 1:
            run.append(i)
        else:
            run = [i]
        if len(run) > len(best):
            best = list(run)
    if len(best) < 3:
        return None, best
    best = best[-4:]          # the finest usable rungs: closest to the asymptote
    sl = np.polyfit(np.log(hs[best]), np.log(err[best]), 1)[0]
    return float(sl), best


def run_long_excerpt(case):
    from pyins import strapdown
    rng = np.random.Generator(np.random.PCG64(case['seed']))
    n = int(rng.choice([70000, 100000, 140000, 270000]))
    stype = str(rng.choice(['rate', 'increment']))
    h = 0.01
    dt = h * rng.uniform(0.5, 1.5, n) if rng.random() < 0.75 else np.full(n, h)
    tt = rng.choice([0.0, 1e3]) + np.r_[0.0, np.cumsum(dt)]
    # smooth random signals (sums of a few sinusoids), scaled to increments for the increment type
    w = np.column_stack([np.sin(rng.uniform(0.1, 3) * tt + rng.uniform(0, 6)) * rng.uniform(0.1, 1.0) for _ in range(3)])
    f = np.column_stack([np.sin(rng.uniform(0.1, 3) * tt + rng.uniform(0, 6)) * rng.uniform(1, 10) for _ in range(3)]) + np.array([0, 0, -9.8])
    data = np.c_[w, f]
    if stype == 'increment':
        data = data * np.r_[dt[0], dt][:, None]
    imu = pd.DataFrame(data, index=pd.Index(tt, name='time'), columns=GY + AC)
    full = strapdown.compute_increments_from_imu(imu, stype)
    out = list(PENDING)
    vals = full.values
    cuts = sorted(set([int(2 ** p) for p in range(9, 19) if 2 ** p < n - 10] + [int(k * 2 ** 16) for k in range(1, 5) if k * 2 ** 16 < n - 10]
                      + [int(x) for x in rng.integers(10, n - 10, 12)] + [10000, 20000, 50000, 100000]))
    worst = 0.0
    for c in cuts:
        if c >= n - 8:
            continue
        a, b = c - 6, c + 7                                   # samples a..b; increments rows a .. b-1 of the full record
        ex = strapdown.compute_increments_from_imu(imu.iloc[a:b + 1], stype).values
        ref = vals[a:b]
        # the first row of an excerpt uses the documented first-row convention (previous interval := first interval): not compared
        d = np.abs(ex[1:] - ref[1:]).max() / max(np.abs(ref[1:]).max(), 1e-300)
        worst = max(worst, d)
        bump('excerpt_rows_compared', len(ex) - 1)
        if not d <= 1e-12:
            i = int(np.argmax(np.abs(ex[1:] - ref[1:]).max(axis=1))) + 1
            out.append(vio('record_length_dependence', f'{stype}: row {a + i} of a {n}-sample record differs from the same samples processed as a 14-sample excerpt by {d:.3e} '
                           f'(relative): {ref[i].tolist()} vs {ex[i].tolist()}', stype=stype, stamps='irregular', row=a + i))
            break
    OBS['max_record_rows'] = max(OBS.get('max_record_rows', 0), n)
    return dict(violations=out, obs=dict(OBS), nontrivial=True, sample=dict(cls='long-excerpt', n=n, stype=stype, worst=worst))


def run_case(case):
    from pyins import strapdown
    PENDING.clear()
    OBS.clear()
    out = []
    if case['cls'] == 'long-excerpt':
        return run_long_excerpt(case)
    rng = np.random.Generator(np.random.PCG64(case['seed']))
    kind, stype, stamps = case['cls'].split('-')
    sig = make_signal(rng, kind)
    mixed = kind == 'linear' and stype == 'rate' and case['seed'] % 5 == 0
    if mixed:
        # a turntable at constant whole-number rates (rad/s), logged as integers next to float accelerometers: a frame of mixed dtypes
        sig = bodyint.LinearSignal(np.array([1.0, -2.0, 2.0]) * rng.choice([-1, 1], 3), np.zeros(3), rng.uniform(-1, 1, 3) * 15, rng.uniform(-1, 1, 3) * 10)
        bump('mixed_dtype_frames')
    nint = 8
    pattern = case.get('pattern', 'jitter') if stamps == 'irregular' else 'uniform'
    if pattern == 'jitter' or stamps != 'irregular':
        base = np.r_[0, np.cumsum(rng.uniform(0.5, 1.5, nint))] if stamps == 'irregular' else np.arange(nint + 1.0)
    elif pattern == 'late_first':
        # only the interval after the first sample differs (the interval "before" the first sample is what the formula must assume)
        d = np.ones(nint)
        d[0] = rng.choice([0.6, 1.4])
        d[-1] = rng.choice([0.7, 1.0, 1.3])
        base = np.r_[0, np.cumsum(d)]
    else:
        # structured irregularity: a regular clock with one late sample (mean interval == first interval), two rates, alternating
        # long/short, a ramp, a gap - what real loggers produce and what a "looks regular" shortcut or a wrap-around misjudges
        base = forms.stamps(nint, 1.0, rng, pattern)
        if pattern == 'one_late':
            k = int(rng.integers(1, nint - 1))
            e = rng.uniform(0.15, 0.4)
            d = np.ones(nint)
            d[k] += e
            d[k + 1] -= e
            base = np.r_[0, np.cumsum(d)]
    bump('pattern_' + pattern)
    reversal = kind == 'linear' and stamps == 'uniform' and not mixed and case['seed'] % 3 == 1
    if reversal:
        # Round 6: the angular rate reverses exactly in the middle of a sampling interval on EVERY rung (w(t) = b t on cell-centred stamps
        # +-h/2, +-3h/2, ...): the two gyro samples of that interval are exact negatives, the net rotation over it is exactly zero, while
        # the sculling term is not
        sig = bodyint.LinearSignal(np.zeros(3), sig.b if hasattr(sig, 'b') else rng.uniform(-1, 1, 3), rng.uniform(-1, 1, 3) * 15, rng.uniform(-1, 1, 3) * 10)
        base = np.arange(nint) - (nint - 1) / 2.0
        bump('rate_reversal_mid_interval')
    shuf = np.random.Generator(np.random.PCG64(case['seed'] + 5)) if case.get('shuffled') else None
    bump('imu_columns_permuted', int(shuf is not None))
    t_off = 0.0 if reversal else rng.uniform(0, 0.5)
    eth, edv, edv2, fl_th, fl_dv, adm = [], [], [], [], [], []
    for h in HS:
        tt = t_off + base * h
        if stype == 'rate':
            data = np.array([np.r_[sig.w(t), sig.f(t)] for t in tt])
        else:
            Wv, Fv = sig.W(tt), sig.F(tt)
            inc = np.c_[np.diff(Wv, axis=0), np.diff(Fv, axis=0)]
            h0 = tt[1] - tt[0]
            t_1 = np.array([tt[0] - h0, tt[0]])          # the "before" sample: exact integral over an equal previous interval
            first = np.r_[np.diff(sig.W(t_1), axis=0)[0], np.diff(sig.F(t_1), axis=0)[0]]
            data = np.vstack([first, inc])
        imu = pd.DataFrame(data, index=pd.Index(tt, name='time'), columns=GY + AC)
        if mixed:
            imu = imu.astype({c: np.int64 for c in GY})
        if shuf is not None:
            imu = forms.shuffle_table(imu, np.random.Generator(np.random.PCG64(case['seed'] + 5)))
        try:
            res = strapdown.compute_increments_from_imu(imu, stype)
        except Exception as e:
            out.append(vio('exception', f'{type(e).__name__}: {e}'))
            return dict(violations=out, obs=dict(OBS))
        th, dv = bodyint.exact_increments(tt, sig.w, sig.f)
        bump('rungs_evaluated')
        eth.append(np.abs(res[TH].values - th).max())
        edv.append(np.abs(res[DV].values - dv).max())
        if kind == 'linear':
            hh = np.diff(tt)[:, None]
            ak = np.array([sig.w(t) for t in tt[:-1]])
            dk = np.array([sig.f(t) for t in tt[:-1]])
            corr = np.cross(ak, np.cross(ak, dk)) * hh ** 3 / 6
            edv2.append(np.abs(res[DV].values + corr - dv).max())
        # measured: with max_step = span/16 the reference follows h^5 down to ~2e-15 relative, i.e. rounding level
        eps = np.finfo(float).eps
        if stype == 'rate':
            fl_th.append(4 * eps * np.abs(th).max())
            fl_dv.append(4 * eps * np.abs(dv).max())
        else:       # the increment inputs are differences of antiderivatives: absolute rounding of those
            fl_th.append(8 * eps * max(np.abs(Wv).max(), np.abs(th).max()))
            fl_dv.append(8 * eps * max(np.abs(Fv).max(), np.abs(dv).max()))
        T = tt[-1] - tt[0]
        adm.append(max(sig.wmax(tt[-1]), sig.freq) * h * max(1.5, float(np.diff(base).max())) <= (0.3 if kind == 'linear' else 0.12))
    out.extend(PENDING)
    eth, edv, fl_th, fl_dv, adm = map(np.array, (eth, edv, fl_th, fl_dv, adm))
    edv2 = np.array(edv2) if kind == 'linear' else edv
    need = 3.5 if kind == 'linear' else 2.0
    fits = {}
    inconclusive = []
    for name, err, fl in (('theta', eth, fl_th), ('dv', edv2, fl_dv)):
        sl, rungs = order_fit(HS, err, fl, adm)
        fits[name] = sl
        if sl is None:
            # error already at the oracle floor on the asymptotic rungs: held trivially only if it is small everywhere there
            bump('order_at_floor')
            if (err[adm] > 1e4 * fl[adm]).any():
                # a high-order case that reaches the floor after one or two admissible rungs (seen in a thorough run: 1e-10, 2.6e-12, then floor):
                # the usable admissible rungs plus their coarser neighbours can CLEAR the case (order >= need), never condemn it
                above = np.nonzero(err > 100 * fl)[0]
                cand = above[-3:] if len(above) >= 2 else above
                if len(cand) >= 2 and (np.diff(cand) == 1).all():
                    sl2 = float(np.polyfit(np.log(HS[cand]), np.log(err[cand]), 1)[0])
                    if sl2 >= need:
                        bump('order_cleared_with_coarser_rungs')
                        continue
                inconclusive.append(f'{name}: fewer than 3 usable rungs: err={err.tolist()}')
            continue
        bump('order_fits')
        OBS[f'min_order_{kind}_{name}_x100'] = min(OBS.get(f'min_order_{kind}_{name}_x100', 10 ** 6), int(sl * 100))
        if sl < need:
            what = ('rotation vector error' if name == 'theta' else
                    ('velocity increment error after adding the neglected a x (a x d) h^3 / 6' if kind == 'linear'
                     else 'velocity increment error'))
            out.append(vio(f'{name}_order_{kind}', f'{stype}/{stamps}: {what} falls as h^{sl:.2f} (< {need}) over h={HS[rungs].tolist()}: '
                           f'{err[rungs].tolist()}', stype=stype, stamps=stamps, signal=kind, quantity=name, order=sl))
    extra = dict(inconclusive='; '.join(inconclusive)) if inconclusive else {}
    return dict(violations=out, obs=dict(OBS), nontrivial=True, **extra,
                sample=dict(cls=case['cls'], orders=fits, theta_err=eth.tolist(), dv_err=edv2.tolist()))


def classify(case, v):
    d = v.get('detail', {})
    if (v['kind'] in ('theta_order_linear', 'dv_order_linear') and d.get('stype') == 'increment'
            and d.get('stamps') == 'irregular'):
        return 'increments:irregular-increment-type'
    return None
