"""C07 - Kalman correction is the exact Bayesian posterior with whitened innovation.

Monitor: boundary contract on the real `pyins.kalman.correct` (every binding):
argument snapshot before / after (purity), postcondition against a 50-digit
mpmath posterior (covariance form; information form when P is nonsingular),
lower-Cholesky whitening, symmetry / PSD / P - P+ PSD.  The driver additionally
processes independent blocks sequentially in random order through the same
monitored function and compares with joint processing.
"""
import numpy as np

from rv.core import vio
from rv.instrument import patch
from rv.oracles import hp_linalg as hp

ID = 'C07'
RULE = ('seeded random (x, P, z, H, R): n in 1..20, m in 1..6, cond(P) 1..1e10 incl. '
        'rank-deficient P, duplicate/zero rows in H, correlated R with scale 1e-8..1e8, '
        'overall scale 1e-4..1e4; every case is checked against a 50-digit mpmath '
        'posterior; non-trivial = anything but (diagonal S and n<=2), which is all the '
        'existing test has; distinct = distinct generator parameters; plus ambient cases: the same contract on every '
        'kalman.correct call made by the real filters on seeded schedules'
        ' Round 3: residuals that are exactly zero (x = 0, z = 0; whole-number H and x; one independent block only).'
        ' Round 4: before every monitored correction the other function of the module and a correction of the same size are called and the caller overwrites what they returned.'
        ' Round 5: observation components in any order (independent groups interleaved).')
ASSUMPTIONS = ['mpmath 50-digit arithmetic is exact relative to float64',
               'rounding bounds: c*eps*cond(S) for mean/innovation, Joseph-form bound for P; '
               'cases with eps*cond(S) > 1e-5 are counted as ill-conditioned-skipped for the '
               'mean/innovation comparison only']
REQUIRED_OBS = ['diffuse_prior_cases', 'redundant_selection_rows', 'returned_arrays_overwritten', 'exactly_zero_residuals', 'partly_zero_residuals', 'post_checked', 'mean_compared', 'innovation_compared', 'sequential_compared',
                'info_form_compared', 'ambient_calls_checked']
REQUIRED_CLASSES = {'all': ['well', 'illcond', 'rankdef_P', 'rankdef_H', 'offdiag_S', 'selection', 'diffuse', 'ambient']}
EPS = np.finfo(float).eps

# fixed constants (calibrated on the unchanged tree: worst observed ratio to the
# un-scaled bound over > 2e4 cases was < 1/50 of these)
C_MEAN = 200.0
C_COV = 200.0
C_INN = 200.0

PENDING = []
LAST = {}


def _pre(args, kwargs):
    return [np.array(a, copy=True) for a in args]


def check_post(x, P, z, H, R, result, obs):
    out = []
    xn, Pn, nu = result
    n, m = len(x), len(z)
    information = (np.linalg.matrix_rank(P) == n and
                   np.linalg.cond(P) < 1e8 and np.linalg.cond(R) < 1e8)
    ref = hp.kalman_posterior(x, P, z, H, R, information=information)
    S = ref['S']
    condS = np.linalg.cond(S)
    K = ref['K']
    nK = np.linalg.norm(K, 2)
    nH = np.linalg.norm(H, 2)
    nP = max(np.linalg.norm(P, 2), 1e-300)
    nR = np.linalg.norm(R, 2)
    ne = np.linalg.norm(z) + nH * np.linalg.norm(x)   # size before cancellation in z - Hx
    asym_in = np.abs(P - P.T).max()
    smin = max(np.linalg.eigvalsh(0.5 * (S + S.T)).min(), 1e-300)
    obs['post_checked'] = obs.get('post_checked', 0) + 1
    if xn.shape != (n,) or Pn.shape != (n, n) or nu.shape != (m,):
        out.append(vio('shape', f'result shapes {xn.shape} {Pn.shape} {nu.shape}'))
        return out, ref
    if not (np.isfinite(xn).all() and np.isfinite(Pn).all() and np.isfinite(nu).all()):
        out.append(vio('nonfinite', 'non-finite output'))
        return out, ref
    # covariance: Joseph form is first-order insensitive to gain error
    # a-priori rounding bound of the computed gain (H P formed with cancellation, then solve)
    dK = (EPS * condS * nP + asym_in) * nH / smin * np.sqrt(n)   # incl. asymmetry of the given P
    cov_bound = C_COV * (EPS * ((1 + nK * nH) ** 2 * nP + nK ** 2 * nR)
                         + dK ** 2 * np.linalg.norm(S, 2)
                         + (1 + nK * nH) ** 2 * asym_in)
    eP = np.abs(Pn - ref['P']).max()
    obs['max_cov_ratio'] = max(obs.get('max_cov_ratio', 0), eP / cov_bound)
    if eP > cov_bound:
        out.append(vio('posterior_cov', f'|P+ - P+ref| = {eP:.3e} > bound {cov_bound:.3e}',
                       err=eP, bound=cov_bound, condS=condS))
    asym = np.abs(Pn - Pn.T).max()
    if asym > cov_bound:
        out.append(vio('cov_symmetry', f'asymmetry {asym:.3e} > {cov_bound:.3e}'))
    Ps = 0.5 * (Pn + Pn.T)
    mineig = np.linalg.eigvalsh(Ps).min()
    if mineig < -cov_bound * n:
        out.append(vio('cov_psd', f'min eig(P+) = {mineig:.3e} < -{cov_bound * n:.3e}'))
    dec = np.linalg.eigvalsh(0.5 * ((P - Pn) + (P - Pn).T)).min()
    if dec < -cov_bound * n:
        out.append(vio('cov_not_larger', f'min eig(P - P+) = {dec:.3e} < -{cov_bound * n:.3e}'))
    if EPS * condS <= 1e-5:
        mean_bound = C_MEAN * (dK * ne + EPS * (nK * ne + np.abs(x).max()) + 1e-300)
        ex = np.abs(xn - ref['x']).max()
        obs['mean_compared'] = obs.get('mean_compared', 0) + 1
        obs['max_mean_ratio'] = max(obs.get('max_mean_ratio', 0), ex / mean_bound)
        if ex > mean_bound:
            out.append(vio('posterior_mean', f'|x+ - x+ref| = {ex:.3e} > bound {mean_bound:.3e}',
                           err=ex, bound=mean_bound, condS=condS))
        inn_bound = C_INN * EPS * (condS * np.abs(ref['nu']).max() + ne / np.sqrt(smin)
                                   + 1e-300)
        ei = np.abs(nu - ref['nu']).max()
        obs['innovation_compared'] = obs.get('innovation_compared', 0) + 1
        obs['max_inn_ratio'] = max(obs.get('max_inn_ratio', 0), ei / inn_bound)
        if ei > inn_bound:
            out.append(vio('innovation_whitening',
                           f'|nu - L^-1 e| = {ei:.3e} > bound {inn_bound:.3e} '
                           '(L = lower Cholesky factor of S)', err=ei, bound=inn_bound))
        if information:
            # the code must agree with the information form as well
            condP = np.linalg.cond(P) * max(1.0, np.linalg.cond(R))
            ib = C_COV * EPS * (condP + condS) * nP + cov_bound
            e2 = np.abs(Pn - ref['P_info']).max()
            obs['info_form_compared'] = obs.get('info_form_compared', 0) + 1
            if e2 > ib:
                out.append(vio('information_form', f'|P+ - P_info| = {e2:.3e} > {ib:.3e}'))
    else:
        obs['illcond_skipped_mean'] = obs.get('illcond_skipped_mean', 0) + 1
    return out, ref


def _post(ctx, args, kwargs, result):
    obs = LAST.setdefault('obs', {})
    names = ['x', 'P', 'z', 'H', 'R']
    for nm, before, after in zip(names, ctx, args):
        a = np.asarray(after)
        if a.shape != before.shape or not np.array_equal(
                a.view(np.uint8) if a.dtype == float else a,
                before.view(np.uint8) if before.dtype == float else before):
            PENDING.append(vio('input_modified', f'argument {nm} changed by correct()'))
    obs['purity_checked'] = obs.get('purity_checked', 0) + 1
    if LAST.get('oracle', True):
        v, ref = check_post(*ctx, result, obs)
        PENDING.extend(v)
        LAST['ref'] = ref


def setup():
    from pyins import kalman
    patch.import_all()
    patch.wrap(kalman, 'correct', pre=_pre, post=_post)


def gen(case):
    rng = np.random.Generator(np.random.PCG64(case['seed']))
    cls = case['cls']
    if cls == 'selection':
        # Round 6: redundant sensors - every row of a WIDE H picks one state (one non-zero entry), two or more rows pick the SAME state
        n = int(rng.integers(3, 13))
        m = int(rng.integers(2, min(n - 1, 6) + 1))
        pick = rng.integers(0, n, m)
        pick[int(rng.integers(1, m))] = pick[0]
        if m > 3 and rng.random() < 0.5:
            pick[-1] = pick[1]
        H = np.zeros((m, n))
        H[np.arange(m), pick] = np.where(rng.random(m) < 0.5, 1.0, rng.uniform(0.5, 2.0, m) * rng.choice([-1, 1], m))
        A = rng.standard_normal((n, n))
        scale = 10 ** rng.uniform(-3, 3)
        P = (A @ A.T + 0.3 * np.eye(n)) * scale
        P = 0.5 * (P + P.T)
        R = np.diag(10 ** rng.uniform(-2, 1, m)) * scale
        sizes = [1] * m if rng.random() < 0.7 else [m]
        x = rng.standard_normal(n) * np.sqrt(scale)
        z = H @ x + rng.standard_normal(m) * np.sqrt(np.diag(H @ P @ H.T + R))
        return x, P, z, H, R, sizes
    if cls == 'diffuse':
        # Round 6: a diffuse prior - every state observed (square, well-conditioned H) with noise 10..19 decades below the prior variance: the
        # posterior is at the level of R and must come out with RELATIVE accuracy (checked in run_case against the 50-digit posterior)
        n = m = int(rng.integers(1, 6))
        H = np.eye(n)[rng.permutation(n)] + (0.25 * rng.standard_normal((n, n)) if rng.random() < 0.6 else 0.0)
        A = rng.standard_normal((n, n))
        scale = 10 ** rng.uniform(-2, 6)
        P = (A @ A.T / n + np.eye(n)) * scale
        P = 0.5 * (P + P.T)
        B = rng.standard_normal((n, n))
        R = (B @ B.T / n + np.eye(n)) * scale * 10 ** -rng.uniform(10, 19)
        R = 0.5 * (R + R.T)
        x = rng.standard_normal(n) * np.sqrt(scale)
        z = H @ (x + rng.standard_normal(n) * np.sqrt(scale))
        return x, P, z, H, R, [m]
    n = int(rng.integers(1, 21))
    m = int(rng.integers(1, 7))
    if cls == 'offdiag_S':
        m = max(m, 2)
    cond = 10 ** rng.uniform(0, 3) if cls != 'illcond' else 10 ** rng.uniform(6, 10)
    rank = n
    if cls == 'rankdef_P':
        n = max(n, 2)
        rank = int(rng.integers(1, n))
    U, _ = np.linalg.qr(rng.standard_normal((n, n)))
    s = np.logspace(0, -np.log10(cond), n)
    s[rank:] = 0
    scale = 10 ** rng.uniform(-4, 4)
    P = (U * s) @ U.T * scale
    P = 0.5 * (P + P.T)
    H = rng.standard_normal((m, n))
    if cls == 'rankdef_H':
        m = max(m, 2)
        H = rng.standard_normal((m, n))
        if rng.random() < 0.5:
            H[-1] = H[0]
        else:
            H[-1] = 0
        if m > 2 and rng.random() < 0.3:
            H[1] = 2 * H[0]
    # independent blocks: block-diagonal R with a random partition of the rows
    sizes = []
    left = m
    while left > 0:
        k = int(rng.integers(1, left + 1))
        sizes.append(k)
        left -= k
    R = np.zeros((m, m))
    i = 0
    rs = 10 ** rng.uniform(-8, 8) if cls in ('scaled_R', 'illcond') else 10 ** rng.uniform(-2, 2)
    for k in sizes:
        A = rng.standard_normal((k, k))
        R[i:i + k, i:i + k] = (A @ A.T + k * np.eye(k)) * rs * scale
        i += k
    x = rng.standard_normal(n) * np.sqrt(scale)
    if rng.random() < 0.2:
        x = np.zeros(n)             # an error-state (feedback) filter corrects from an exactly zero prior mean
    z = H @ x + rng.standard_normal(m) * np.sqrt(np.abs(np.diag(H @ P @ H.T + R)))
    # measurements that agree EXACTLY with the prediction (residual identically zero) - wholly, or in one independent block only: the
    # covariance must shrink all the same and a sequential pass must not skip the block (error-state filters meet z = 0, x = 0; whole-number
    # H and x give z = H x exactly)
    r = rng.random()
    if r < 0.07:
        x = np.zeros(n)
        z = np.zeros(m)
    elif r < 0.13:
        H = np.rint(2 * H)
        x = np.rint(3 * rng.standard_normal(n))
        z = H @ x
    elif r < 0.19 and len(sizes) > 1:
        x = np.zeros(n)
        k0 = int(rng.integers(0, len(sizes)))
        a = int(np.sum(sizes[:k0]))
        z[a:a + sizes[k0]] = 0.0
    if m > 2 and rng.random() < 0.35:
        # the components of the observation vector in any order: independent groups are then INTERLEAVED ([pos_N, pos_E, vel_N, vel_E] with position /
        # velocity noise correlated per axis); mean, covariance and the whitening by the LOWER Cholesky factor of S refer to the order given.
        # (The sequential pass over contiguous blocks is skipped for such a case: one block.)
        perm = rng.permutation(m)
        z, H, R = z[perm], H[perm], R[np.ix_(perm, perm)]
        sizes = [m]
    return x, P, z, H, R, sizes


def cases(seed, tier):
    n = 640 if tier == 'quick' else 24000
    classes = ['well', 'illcond', 'rankdef_P', 'rankdef_H', 'offdiag_S', 'scaled_R', 'selection', 'diffuse']
    out = [dict(seed=int(seed) * 1000003 + i, cls=classes[i % len(classes)])
           for i in range(n)]
    # ambient: the same contract left installed while the real filters run on seeded schedules, so the
    # matrices are the ones a navigation filter actually produces (structured H, P spanning many decades)
    na = 12 if tier == 'quick' else 200
    out += [dict(seed=int(seed) * 1000003 + 800000 + i, cls='ambient', cost=40) for i in range(na)]
    return out


def run_ambient(case):
    from pyins import filters, sim
    import pandas as pd
    from rv.workloads import schedules
    S = schedules.build(case['seed'])
    PENDING.clear()
    LAST.clear()
    LAST['oracle'] = True
    obs = LAST.setdefault('obs', {})
    err = pd.Series(S['init_err'], index=['north', 'east', 'down', 'VN', 'VE', 'VD', 'roll', 'pitch', 'heading'])
    try:
        if case['seed'] % 2 == 0:
            filters.run_feedback_filter(sim.perturb_pva(S['traj'].iloc[0], err), 5, 1, 0.5, 1.0, S['increments'], S['gyro_model'], S['accel_model'],
                                        measurements=S['measurements'], time_step=S['time_step'], with_altitude=S['with_altitude'])
        else:
            filters.run_feedforward_filter(S['traj'], S['traj'] * 1.0, 5, 1, 0.5, 1.0, S['gyro_model'], S['accel_model'], measurements=S['measurements'],
                                           increments=S['increments'], time_step=S['time_step'], with_altitude=S['with_altitude'])
    except Exception as e:
        return dict(violations=[vio('exception', f'ambient filter run raised {type(e).__name__}: {e}')], obs=obs)
    n_calls = obs.get('post_checked', 0)
    obs['ambient_calls_checked'] = n_calls
    out = [dict(v, message='[ambient, inside a real filter run] ' + v['message']) for v in PENDING[:5]]
    return dict(violations=out, obs=dict(obs), nontrivial=n_calls > 0, evals=max(1, n_calls), nontrivial_count=max(1, n_calls),
                sample=dict(cls='ambient', schedule=S['describe'], kalman_correct_calls=n_calls))


def run_case(case):
    from pyins import kalman
    if case['cls'] == 'ambient':
        return run_ambient(case)
    x, P, z, H, R, sizes = gen(case)
    PENDING.clear()
    LAST.clear()
    LAST['oracle'] = True
    obs = LAST.setdefault('obs', {})
    # call history before the monitored correction: the other function of the module and a correction of the same size, whose returned
    # arrays the caller overwrites (matrices handed out from a shared constant / memo would reach the monitored call below)
    LAST['oracle'] = False
    n_ = len(x)
    for r_ in (kalman.compute_process_matrices(np.zeros((n_, n_)), np.eye(n_), 0.5), kalman.compute_process_matrices(np.eye(n_), np.eye(n_), 0.0),
               kalman.correct(np.zeros(n_), np.eye(n_), np.zeros(1), np.eye(1, n_), np.eye(1))):
        for a_ in r_:
            if isinstance(a_, np.ndarray) and a_.flags.writeable:
                a_[...] = 3.75
                obs['returned_arrays_overwritten'] = obs.get('returned_arrays_overwritten', 0) + 1
    PENDING.clear()
    LAST['oracle'] = True
    res0 = z - H @ x
    if not res0.any():
        obs['exactly_zero_residuals'] = 1
    elif (res0 == 0).any():
        obs['partly_zero_residuals'] = 1
    try:
        xj, Pj, nuj = kalman.correct(x, P, z, H, R)
    except Exception as e:
        return dict(violations=[vio('exception', f'correct raised {type(e).__name__}: {e}')],
                    obs=obs)
    ref = LAST.get('ref')
    out = list(PENDING)
    if case['cls'] == 'diffuse' and ref is not None:
        obs['diffuse_prior_cases'] = 1
        pr = np.abs(ref['P']).max()
        rel = float(np.abs(Pj - ref['P']).max() / max(pr, 1e-300))
        obs['max_diffuse_rel_err_x1e12'] = int(min(rel, 1.0) * 1e12)
        if not rel <= 1e-6 or not (np.diag(Pj) > 0).all():
            out.append(vio('diffuse_prior_cov', f'prior variance {np.abs(P).max():.1e}, noise {np.abs(R).max():.1e}: the posterior covariance (level {pr:.1e}) is off by '
                           f'{rel:.2e} relative (diag {np.diag(Pj).tolist()} vs {np.diag(ref["P"]).tolist()})'))
    if case['cls'] == 'selection':
        obs['redundant_selection_rows'] = 1
    # sequential processing of the independent blocks in random order
    if len(sizes) > 1 and ref is not None and not out:
        rng = np.random.Generator(np.random.PCG64(case['seed'] + 17))
        order = rng.permutation(len(sizes))
        starts = np.cumsum([0] + sizes)
        xs, Ps = x, P
        PENDING.clear()
        for b in order:
            sl = slice(starts[b], starts[b + 1])
            xs, Ps, _ = kalman.correct(xs, Ps, z[sl], H[sl], R[sl, sl])
        out.extend(PENDING)   # each step is itself checked against mpmath
        condS = np.linalg.cond(ref['S'])
        nK = np.linalg.norm(ref['K'], 2)
        nP = max(np.linalg.norm(P, 2), 1e-300)
        nH = np.linalg.norm(H, 2)
        nR = np.linalg.norm(R, 2)
        cb = len(sizes) * C_COV * EPS * condS * ((1 + nK * nH) ** 2 * nP + nK ** 2 * nR)
        obs['sequential_compared'] = obs.get('sequential_compared', 0) + 1
        eP = np.abs(Ps - ref['P']).max()
        if eP > cb:
            out.append(vio('sequential_vs_joint_cov', f'{eP:.3e} > {cb:.3e}', order=order))
        if EPS * condS <= 1e-5:
            smin = max(np.linalg.eigvalsh(ref['S']).min(), 1e-300)
            ne = np.linalg.norm(z) + nH * np.linalg.norm(x)
            mb = len(sizes) * C_MEAN * EPS * (
                condS ** 2 * nH * nP / smin * np.sqrt(len(x)) * ne + nK * ne + np.abs(x).max())
            ex = np.abs(xs - ref['x']).max()
            if ex > mb:
                out.append(vio('sequential_vs_joint_mean', f'{ex:.3e} > {mb:.3e}', order=order))
    S = ref['S'] if ref is not None else np.eye(1)
    offdiag = np.abs(S - np.diag(np.diag(S))).max() > 1e-9 * np.abs(S).max()
    nontrivial = bool(offdiag or len(x) > 2)
    sample = dict(n=len(x), m=len(z), condS=float(np.linalg.cond(S)), blocks=sizes,
                  max_ratios={k: v for k, v in obs.items() if k.startswith('max_')})
    return dict(violations=out, obs=obs, nontrivial=nontrivial, sample=sample)
