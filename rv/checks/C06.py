"""C06 - measurement models: residual sign/units right and H is the Jacobian of z.

Monitor: postcondition on the real `compute_matrices` of Position / NedVelocity /
BodyVelocity (patched on the classes, so the filters' calls are seen as well):
own residual model, Richardson central-difference Jacobian of the real residual
under the library's correction convention (true = correct_pva(ins, x)), noise
matrix, None iff the time is absent; end-to-end with the real simulators through
a recording RandomState (z = 0 noise-free, z = -e with an injected error) and
with translate_trajectory for the lever arm.
"""
import numpy as np
import pandas as pd

from rv.core import vio
from rv.instrument import patch
from rv.oracles import wgs84 as W
from rv.workloads import forms

ID = 'C06'
RULE = ('seeded random (pva, lever arm, body rates present/absent, measurement value near/far, altitude mode) for '
        'each of the three measurement classes; |lat|<=85, |pitch|<=85, speed<=300, lever in {None, 0, random<=5 m}, '
        'rates up to 1.5 rad/s; non-trivial = lever arm present or 2-D mode or rates present (the existing filter '
        'tests use none of these with a checked Jacobian); distinct = generator parameters'
        " Round 3: lever arms with exactly-zero components ([x, 0, 0]) judged against the lever the harness passed (not the object's copy), measurement tables with permuted / extra columns, simulated fixes for a vehicle within metres of the antimeridian."
        ' Round 4: unrelated extra columns with NaN gaps (a slower sensor in the same log); records whose values repeat at different stamps (zero-velocity updates): every stamp must answer; closed ends of the domain.'
        ' Round 5: with_altitude as bool or numpy.bool_.')
ASSUMPTIONS = ['Jacobian reference = Richardson central differences of the real residual through the real correct_pva; '
               'steps 10 m / 1 m/s / 1e-4 rad', 'position residual compared to first order: bound 4|z|^2 (1+tan lat)/R']
REQUIRED_OBS = ['data_rows_not_chronological', 'absent_requests_in_history', 'repeated_value_rows_checked', 'lever_with_zero_components', 'data_columns_permuted', 'simulated_fixes_at_antimeridian', 'history_independence_checked', 'residual_checked', 'jacobian_checked', 'noise_checked', 'absent_time_checked', 'sim_zero_residual',
                'sim_injected_error', 'translate_consistency', 'lever_and_rates_cases']
REQUIRED_CLASSES = {'all': ['Position', 'NedVelocity', 'BodyVelocity', 'simulators']}
LLA = ['lat', 'lon', 'alt']
VEL = ['VN', 'VE', 'VD']
RPH = ['roll', 'pitch', 'heading']
RATE = ['rate_x', 'rate_y', 'rate_z']
BV = ['VX', 'VY', 'VZ']
PENDING = []
STATE = {'enabled': False, 'obs': {}, 'case': None}


def setup():
    patch.import_all()
    from pyins import measurements
    for cls in (measurements.Position, measurements.NedVelocity, measurements.BodyVelocity):
        patch.wrap(cls, 'compute_matrices', post=_post, counter='calls_' + cls.__name__)


def cases(seed, tier):
    classes = ['Position', 'NedVelocity', 'BodyVelocity', 'simulators']
    n = 1200 if tier == 'quick' else 24000
    return [dict(seed=int(seed) * 1000003 + i, cls=classes[i % 4]) for i in range(n)]


def euler_mat(rph):
    r, p, h = np.asarray(rph, float) * W.D2R
    cr, sr, cp, sp, ch, sh = np.cos(r), np.sin(r), np.cos(p), np.sin(p), np.cos(h), np.sin(h)
    return np.array([[ch * cp, ch * sp * sr - sh * cr, ch * sp * cr + sh * sr],
                     [sh * cp, sh * sp * sr + ch * cr, sh * sp * cr - ch * sr],
                     [-sp, cp * sr, cp * cr]])


def bump(k, m=1):
    STATE['obs'][k] = STATE['obs'].get(k, 0) + int(m)


def own_residual(meas, time, pva, wa):
    """Predicted (from INS) minus measured, documented units."""
    name = type(meas).__name__
    C = euler_mat(pva[RPH].values.astype(float))
    row = meas.data.loc[time]
    # the lever arm the harness gave to the constructor (not what the object made of it)
    lever = STATE['case_lever'] if 'case_lever' in STATE else getattr(meas, 'imu_to_antenna_b', None)
    if name == 'Position':
        rn, _, rp = W.radii(0.5 * (pva.lat + row.lat), 0.5 * (pva.alt + row.alt))
        z = np.array([(pva.lat - row.lat) * W.D2R * rn, (pva.lon - row.lon) * W.D2R * rp, -(pva.alt - row.alt)])
        if lever is not None:
            z = z + C @ np.asarray(lever, float)
        return z[:2] if not wa else z
    if name == 'NedVelocity':
        z = pva[VEL].values.astype(float) - row[VEL].values.astype(float)
        if lever is not None and all(c in pva for c in RATE):
            z = z + C @ np.cross(pva[RATE].values.astype(float), np.asarray(lever, float))
        return z[:2] if not wa else z
    return C.T @ pva[VEL].values.astype(float) - row[BV].values.astype(float)


def _post(ctx, args, kwargs, result):
    if not STATE['enabled']:
        return
    self, time, pva, em = args[:4]
    name = type(self).__name__
    wa = em.with_altitude
    present = time in self.data.index
    if not present:
        bump('absent_time_checked')
        if result is not None:
            PENDING.append(vio('absent_time', f'{name}: time {time!r} absent from data but compute_matrices returned a result'))
        return
    if result is None:
        PENDING.append(vio('present_time', f'{name}: time {time!r} present in data but nothing returned'))
        return
    z, H, R = result
    z = np.asarray(z, float)
    H = np.asarray(H, float)
    R = np.asarray(R, float)
    m = 3 if (wa or name == 'BodyVelocity') else 2
    n = em.n_states
    if z.shape != (m,) or H.shape != (m, n) or R.shape != (m, m):
        PENDING.append(vio('shapes', f'{name}: shapes z{z.shape} H{H.shape} R{R.shape}, expected ({m},) ({m},{n}) ({m},{m}) '
                           f'with_altitude={wa}'))
        return
    sd = STATE['case_sd']
    bump('noise_checked')
    if not np.array_equal(R, sd ** 2 * np.eye(m)):
        PENDING.append(vio('noise_matrix', f'{name}: R is not sd^2 I_{m}: {R.tolist()}'))
    # residual
    zr = own_residual(self, time, pva, wa)
    bump('residual_checked')
    if name == 'Position':
        tanl = abs(np.tan(pva.lat * W.D2R))
        tol = 4 * np.linalg.norm(zr) ** 2 * (1 + tanl) / 6.3e6 + 1e-8
    else:
        tol = 1e-11 * (1 + np.abs(pva[VEL].values.astype(float)).max())
    e = np.abs(z - zr).max()
    if e > tol:
        PENDING.append(vio('residual', f'{name}: z = {z.tolist()} but predicted-minus-measured is {zr.tolist()} '
                           f'(diff {e:.3e} > {tol:.3e})'))
    if not STATE.get('jacobian', True):
        return
    # Jacobian by Richardson central differences through the real correct_pva and the real residual
    fn = patch.original(type(self).compute_matrices)
    base9 = pva[LLA + VEL + RPH]
    extra = pva.drop(LLA + VEL + RPH)
    steps = np.array([10.0] * 3 + [1.0] * 3 + [1e-4] * 3)
    if not wa:
        steps = steps[[0, 1, 3, 4, 6, 7, 8]]

    def zof(x):
        c = em.correct_pva(base9, x)
        c.name = pva.name
        return np.asarray(fn(self, time, pd.concat([c, extra]), em)[0], float)

    J = np.zeros((m, n))
    for k in range(n):
        def cd(h):
            x = np.zeros(n)
            x[k] = h
            return -(zof(x) - zof(-x)) / (2 * h)
        J[:, k] = (4 * cd(steps[k] / 2) - cd(steps[k])) / 3
    bump('jacobian_checked')
    lever = getattr(self, 'imu_to_antenna_b', None)
    lv = 0.0 if lever is None else float(np.linalg.norm(lever))
    rates = pva[RATE].values.astype(float) if all(c in pva for c in RATE) else np.zeros(3)
    scale = np.ones(n)
    att = slice(6, 9) if wa else slice(4, 7)
    scale[att] = max(1.0, np.abs(pva[VEL].values.astype(float)).max() + lv * (1 + np.linalg.norm(rates)))
    err = np.abs(H - J) / scale
    if name == 'Position':
        # curvature terms of the metre residual that H = I neglects: second order, ~ |z| (1 + tan lat) / R
        z3 = own_residual(self, time, pva, True)      # incl. the vertical separation also in 2-D mode
        err = np.maximum(err - 4 * np.linalg.norm(z3) * (1 + abs(np.tan(pva.lat * W.D2R))) / 6.3e6, 0)
    STATE['obs']['max_jacobian_err'] = max(STATE['obs'].get('max_jacobian_err', 0.0), float(err.max()))
    if err.max() > 2e-6:
        i, j = np.unravel_index(np.argmax(err), err.shape)
        PENDING.append(vio('jacobian', f'{name}: H[{i},{em.states[j]}] = {H[i, j]!r} but d z/d x = {J[i, j]!r} '
                           f'(lever={None if lever is None else np.asarray(lever).tolist()}, rates={rates.tolist()}, '
                           f'with_altitude={wa})', cls=name, lever_norm=lv, rates_present=bool(np.any(rates != 0)),
                           state=em.states[j], H=H.tolist(), J=J.tolist()))


class RecordingRandomState(np.random.RandomState):
    """A RandomState whose randn output is recorded, so the simulators' injected error is known exactly."""
    def __init__(self, seed):
        super().__init__(seed)
        self.record = []

    def randn(self, *shape):
        v = super().randn(*shape)
        self.record.append(v.copy())
        return v


def gen_pva(rng, with_rates):
    lat = rng.uniform(-85, 85)
    lon = rng.uniform(-180, 180)
    alt = rng.uniform(0, 15000)
    spd = rng.uniform(0, 300)
    d = rng.standard_normal(3)
    v = spd * d / np.linalg.norm(d)
    rph = [rng.uniform(-180, 180), rng.uniform(-85, 85), rng.uniform(-180, 180)]
    # the closed ends of the quantified domain themselves and the cardinal attitudes
    erng = np.random.Generator(np.random.PCG64(int(rng.integers(0, 2 ** 31))))
    if erng.random() < 0.15:
        k = int(erng.integers(0, 5))
        if k == 0:
            lat = float(erng.choice([-85.0, 85.0, 0.0]))
        elif k == 1:
            rph[1] = float(erng.choice([-85.0, 85.0, 0.0]))
        elif k == 2:
            rph[0], rph[2] = float(erng.choice([-180.0, 180.0, 0.0, 90.0, -90.0])), float(erng.choice([-180.0, 180.0, 0.0, 90.0, -90.0]))
        elif k == 3:
            v = np.zeros(3) if erng.random() < 0.5 else 300.0 * np.eye(3)[int(erng.integers(0, 3))] * float(erng.choice([-1, 1]))
        else:
            alt = float(erng.choice([0.0, 15000.0]))
    vals = [lat, lon, alt, *v, *rph]
    idx = LLA + VEL + RPH
    if with_rates:
        vals += list(rng.uniform(-1.5, 1.5, 3))
        idx = idx + RATE
    return pd.Series(vals, index=idx, name=float(np.round(rng.uniform(0, 100), 3)))


def unsort(data, rng):
    # Round 6: a log whose rows are not in chronological order (two files concatenated later-first, a receiver buffer flushed out of order);
    # the stamps are unique, every row is still a sample at its own time
    if len(data) > 1 and rng.random() < 0.35:
        bump('data_rows_not_chronological')
        return data.iloc[rng.permutation(len(data))]
    return data


def run_case(case):
    from pyins import measurements, sim, transform
    from pyins.error_model import InsErrorModel
    rng = np.random.Generator(np.random.PCG64(case['seed']))
    cls = case['cls']
    PENDING.clear()
    STATE['obs'] = {}
    STATE['enabled'] = True
    STATE['jacobian'] = True
    out = []
    wa = bool(rng.integers(0, 2))
    em = InsErrorModel(forms.flag(rng, wa))          # bool or numpy.bool_
    try:
        if cls in ('Position', 'NedVelocity', 'BodyVelocity'):
            with_rates = bool(rng.integers(0, 2))
            pva = gen_pva(rng, with_rates)
            lever_kind = rng.choice(['none', 'zero', 'random', 'axis'], p=[0.2, 0.1, 0.45, 0.25])
            lever = None if lever_kind == 'none' else np.zeros(3) if lever_kind == 'zero' else rng.uniform(-5, 5, 3)
            if lever_kind == 'axis':
                # antenna straight ahead / above: components that are exactly zero (e.g. [0.645, 0, 0])
                lever[rng.permutation(3)[:int(rng.integers(1, 3))]] = 0.0
                bump('lever_with_zero_components')
            STATE['case_lever'] = lever
            sd = float(10 ** rng.uniform(-2, 1))
            STATE['case_sd'] = sd
            t = float(pva.name)
            times = np.sort(np.unique(np.round(np.concatenate([[t], rng.uniform(0, 100, 3)]), 3)))
            far = rng.random() < 0.3
            C = euler_mat(pva[RPH].values)
            if cls == 'Position':
                d = rng.standard_normal((len(times), 3)) * (500.0 if far else 5.0)
                data = pd.DataFrame(transform.perturb_lla(np.tile(pva[LLA].values.astype(float), (len(times), 1)), d),
                                    index=times, columns=LLA)
                if rng.random() < 0.3:
                    data['extra'] = 1.0
                if rng.random() < 0.3:
                    data = forms.shuffle_table(data, rng, extra=bool(rng.integers(0, 2)), nan_extra=True)
                    bump('data_columns_permuted')
                data = unsort(data, rng)
                meas = measurements.Position(data, sd, lever)
            elif cls == 'NedVelocity':
                data = pd.DataFrame(pva[VEL].values.astype(float) + rng.standard_normal((len(times), 3)) * (30 if far else 0.3),
                                    index=times, columns=VEL)
                if rng.random() < 0.4:
                    data = forms.shuffle_table(data, rng, extra=bool(rng.integers(0, 2)), nan_extra=True)
                    bump('data_columns_permuted')
                data = unsort(data, rng)
                meas = measurements.NedVelocity(data, sd, lever)
            else:
                data = pd.DataFrame(C.T @ pva[VEL].values.astype(float) + rng.standard_normal((len(times), 3)) * (30 if far else 0.3),
                                    index=times, columns=BV)
                if rng.random() < 0.4:
                    data = forms.shuffle_table(data, rng, extra=bool(rng.integers(0, 2)), nan_extra=True)
                    bump('data_columns_permuted')
                data = unsort(data, rng)
                meas = measurements.BodyVelocity(data, sd)
                lever = None
                STATE['case_lever'] = None
            if lever is not None and np.any(lever != 0) and with_rates:
                bump('lever_and_rates_cases')
            ret = meas.compute_matrices(t, pva, em)
            # records whose VALUES repeat at different stamps (zero-velocity updates, a parked vehicle, a quantised odometer): every stamp is a sample
            rep = data[[c for c in data.columns if c != 'rv_extra' and c != 'extra']].copy()
            rep.iloc[:] = rep.iloc[0].values
            mrep = type(meas)(rep, sd, *([lever] if cls != 'BodyVelocity' else []))
            for tr_ in rep.index:
                bump('repeated_value_rows_checked')
                if mrep.compute_matrices(float(tr_), pva, em) is None:
                    out.append(vio('present_time', f'{cls}: time {tr_!r} is in the data (a row whose values repeat an earlier row) but nothing was returned'))
                    break
            if ret is None:
                out.append(vio('present_time', f'{cls}: nothing returned at a time present in the data'))
            # absent times: between samples, nextafter neighbours
            for ta in (t + 1e-4, np.nextafter(t, np.inf), np.nextafter(t, -np.inf), -1.0):
                if ta not in data.index:
                    meas.compute_matrices(ta, pva, em)
            sample = dict(cls=cls, with_altitude=wa, rates=with_rates, lever=None if lever is None else lever.tolist(),
                          far=bool(far))
        else:
            # ---- simulators at the true state (residual monitors only; the Jacobian is decided above) ----
            STATE['jacobian'] = False
            STATE['case_lever'] = None
            n = 6
            tt = np.arange(n) * 1.0
            rows = [gen_pva(rng, True) for _ in range(n)]
            if rng.random() < 0.3:
                # a vehicle within metres of the antimeridian: the simulated fixes scatter across it
                for r_ in rows:
                    r_['lon'] = float(rng.choice([-1.0, 1.0])) * (180.0 - float(rng.uniform(0, 3e-5)))
                bump('simulated_fixes_at_antimeridian')
            traj = pd.DataFrame(rows, index=pd.Index(tt, name='time'))
            sd = float(10 ** rng.uniform(-1, 0.7))
            STATE['case_sd'] = sd
            for kind in ('position', 'ned_velocity', 'body_velocity'):
                gen = getattr(sim, f'generate_{kind}_measurements')
                mk = {'position': measurements.Position, 'ned_velocity': measurements.NedVelocity,
                      'body_velocity': measurements.BodyVelocity}[kind]
                data0 = gen(traj, 0.0, RecordingRandomState(1))
                STATE['case_sd'] = sd
                m0 = mk(data0, sd)
                rs = RecordingRandomState(int(rng.integers(0, 2 ** 31)))
                data1 = gen(traj, sd, rs)
                err = sd * rs.record[0]
                m1 = mk(data1, sd)
                for i in range(n):
                    z0 = np.asarray(m0.compute_matrices(tt[i], traj.iloc[i], em)[0], float)
                    bump('sim_zero_residual')
                    if np.abs(z0).max() > 1e-9:
                        out.append(vio('sim_zero_residual', f'{kind}: noise-free simulated measurement at the true state gives '
                                       f'z = {z0.tolist()}'))
                    z1 = np.asarray(m1.compute_matrices(tt[i], traj.iloc[i], em)[0], float)
                    e = err[i][:len(z1)] if kind != 'body_velocity' else err[i]
                    bump('sim_injected_error')
                    if kind == 'position':
                        tanl = abs(np.tan(traj.lat.iloc[i] * W.D2R))
                        tol = 4 * np.linalg.norm(err[i]) ** 2 * (1 + tanl) / 6.3e6 + 1e-8
                    else:
                        tol = 1e-10 * (1 + np.abs(traj[VEL].values).max())
                    if np.abs(z1 + e).max() > tol:
                        out.append(vio('sim_injected_error', f'{kind}: injected error e = {e.tolist()} gives residual {z1.tolist()}, '
                                       f'expected -e (diff {np.abs(z1 + e).max():.3e} > {tol:.3e})'))
            # ---- lever arm: measurement data taken at the antenna (translate_trajectory) --------------------
            lever = rng.uniform(-5, 5, 3)
            if rng.random() < 0.4:
                lever[rng.permutation(3)[:int(rng.integers(1, 3))]] = 0.0
                bump('lever_with_zero_components')
            STATE['case_lever'] = lever
            ant = transform.translate_trajectory(traj, lever)
            mp_ = measurements.Position(ant[LLA], sd, lever)
            mv_ = measurements.NedVelocity(ant[VEL], sd, lever)
            for i in range(n):
                zp = np.asarray(mp_.compute_matrices(tt[i], traj.iloc[i], em)[0], float)
                zv = np.asarray(mv_.compute_matrices(tt[i], traj.iloc[i], em)[0], float)
                bump('translate_consistency')
                tanl = abs(np.tan(traj.lat.iloc[i] * W.D2R))
                if np.abs(zp).max() > 4 * np.linalg.norm(lever) ** 2 * (1 + tanl) / 6.3e6 + 1e-8:
                    out.append(vio('lever_position', f'antenna position from translate_trajectory gives z = {zp.tolist()} '
                                   f'with lever {lever.tolist()}'))
                if np.abs(zv).max() > 1e-10 * (1 + np.abs(traj[VEL].values).max()):
                    out.append(vio('lever_velocity', f'antenna velocity from translate_trajectory gives z = {zv.tolist()} '
                                   f'with lever {lever.tolist()} rates {traj[RATE].iloc[i].tolist()}'))
            # ---- call histories: results must not depend on which error model / measurement object was used before ----------
            # (a shared error model evaluating a lever-arm measurement first, a measurement object used in 3-D first and 2-D later, ...)
            STATE['enabled'] = False
            sd = 1.0
            objs = {
                'pos_lever': lambda: measurements.Position(data0 if False else sim.generate_position_measurements(traj, 0.0, 1), sd, lever),
                'pos_plain': lambda: measurements.Position(sim.generate_position_measurements(traj, 0.0, 1), sd),
                'ned_lever': lambda: measurements.NedVelocity(sim.generate_ned_velocity_measurements(traj, 0.0, 1), sd, lever),
                'ned_plain': lambda: measurements.NedVelocity(sim.generate_ned_velocity_measurements(traj, 0.0, 1), sd),
                'body': lambda: measurements.BodyVelocity(sim.generate_body_velocity_measurements(traj, 0.0, 1), sd),
            }
            shared = {True: InsErrorModel(True), False: InsErrorModel(False)}
            live = {k: f() for k, f in objs.items()}
            names = list(objs)
            for step in range(14):
                nm = names[int(rng.integers(0, len(names)))]
                mode = bool(rng.integers(0, 2))
                i = int(rng.integers(0, n))
                pv = traj.iloc[i] if rng.random() < 0.5 else traj.iloc[i][LLA + VEL + RPH]
                if rng.random() < 0.4:
                    # a request for a time the sensor has no sample at (later than, earlier than or between its samples) must leave no trace
                    t_abs = float(tt[int(rng.integers(0, n))] + rng.choice([0.5, -0.5, 0.25]))
                    if live[nm].compute_matrices(t_abs, pv, shared[mode]) is not None:
                        out.append(vio('absent_time', f'{nm}: a result for time {t_abs} which is not in the data'))
                    bump('absent_requests_in_history')
                got = live[nm].compute_matrices(tt[i], pv, shared[mode])
                if got is None:
                    out.append(vio('present_time', f'{nm}: nothing returned at t={tt[i]} which is in the data (step {step} of a history of requests on the same object)'))
                    break
                ref = objs[nm]().compute_matrices(tt[i], pv, InsErrorModel(mode))         # fresh object, fresh error model
                bump('history_independence_checked')
                for a_, b_, part in zip(got, ref, 'zHR'):
                    a_, b_ = np.asarray(a_, float), np.asarray(b_, float)
                    if a_.shape != b_.shape or not np.array_equal(a_, b_):
                        out.append(vio('history_dependent_result', f'{nm}: {part} from an object / error model used before (step {step}, with_altitude={mode}) differs from '
                                       f'a fresh object with a fresh error model: shape {a_.shape} vs {b_.shape}'
                                       + ('' if a_.shape != b_.shape else f', max diff {np.abs(a_ - b_).max():.3e}')))
                        break
                if out:
                    break
            STATE['enabled'] = True
            sample = dict(cls=cls, with_altitude=wa, sd=sd)
    except Exception as e:     # the code under test raised on a valid input
        import traceback
        out.append(vio('exception', f'{type(e).__name__}: {e}', tb=traceback.format_exc()[-1500:]))
        sample = dict(cls=cls)
    finally:
        STATE['enabled'] = False
    out.extend(PENDING)
    nontrivial = cls == 'simulators' or (not wa) or sample.get('rates') or sample.get('lever') is not None
    return dict(violations=out, obs=dict(STATE['obs']), nontrivial=bool(nontrivial), sample=sample)


def classify(case, v):
    d = v.get('detail', {})
    if (v['kind'] == 'jacobian' and d.get('cls') == 'NedVelocity' and d.get('lever_norm', 0) > 0
            and d.get('rates_present') and str(d.get('state', '')).startswith('PHI')):
        return 'nedvelocity:H-lever-arm'
    return None
