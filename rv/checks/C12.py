"""C12 - feedback filter: transparent without data, first-order equal to feedforward.

(a) transparent: real run_feedback_filter on seeded schedules whose measurement
    samples all lie outside [start, end) (or None / [] / empty streams): the
    trajectory must equal plain Integrator.integrate of the same increments BIT
    FOR BIT for every time_step and sensor model; the event log must show no
    kalman.correct and no update_estimates.
(b) scale ladder: all error sources (initial error, sensor errors, measurement
    noise realisation, configured sigmas) multiplied by s and s/10;
    the disagreement between the two filters in units of the reported standard
    deviation must shrink in proportion: d(s/10) <= 0.25 d(s) + F,
    with the absolute allowance F = 0.05 sd (first-order remainder that belongs to
    the linear model, see DESIGN.md) and the sd ratio |sd_fb / sd_ff - 1| shrinking
    likewise (+1e-3; steps whose upper rung is saturated, |ratio - 1| > 0.5, are counted
    but not decided).  One decade step per configuration, with s drawn from
    [0.7, 1.5] s0 (a thorough run with [0.3, 3] s0 gave 2 false alarms in 500 ladders:
    one saturated at 3 s0, one at the truncation floor at 0.03 s0).  Calibration showed why the
    ladder cannot be longer: at 10 s0 the disagreement saturates (|sd ratio - 1| ~ 1,
    not proportional), and at s0/100 the scaled errors fall to the size of the
    UNSCALED truncation error of the 12.5 ms strapdown integration (1e-3 m/s), so
    the scenario is no longer 'error scale s' and d grows again.
(c) re-running either filter with the same model objects reproduces bit-identical
    results.
"""
import numpy as np
import pandas as pd

from rv.core import vio
from rv.instrument import events, patch
from rv.workloads import schedules

ID = 'C12'
RULE = ('(a) seeded schedules (uniform / jittered / gapped IMU, time_step 0.1x interval .. 2x span, models none / bias / full, both altitude '
        'modes) with every measurement sample before start, at / after end, empty streams or measurements None / []; (b) seeded '
        'configurations: sine-velocity motion, IMU step 12.5 ms, horizon 20..40 s, time_step 0.25 / 0.5 s, 1..3 sensors on / off the IMU '
        'grid, bias / scale-misalignment models, both altitude modes, error scales s, s/10 with s in [0.7, 1.5] s0, s0 = (10 m, 1 m/s, 0.5 / 2 deg, '
        '1e-4 rad/s, 0.03 m/s^2); (c) both filters run twice with the same model objects; non-trivial = every case (the tests never compare the '
        'filters with each other or with free inertial integration and run each once); distinct = distinct seeds'
        ' Round 3: ladders with two DISTINCT measurement epochs between the same two IMU samples (unsynchronised receivers) and ladders with the IMU mounted upside down (roll swinging through +-180).'
        ' Round 4: ladders in which the feedforward filter gets the computed trajectory at half / a quarter of the increments rate (epochs on the decimated grid).'
        ' Round 5: ladders on a time origin of 4e5 s (seconds of week); allowance 0.15 sd for off-grid epochs.')
ASSUMPTIONS = ['off-grid measurement epochs: allowance 0.15 sd instead of 0.05 (thorough-run calibration: 0.103 sd with dense clustered fixes)', 'F = 0.05 sd is an ABSOLUTE allowance (the one place an absolute number is used): piecewise-constant F over a covariance step, increment '
               'cross-terms ignored by the bias model and the neglected terms of C04 leave a first-order, scale-independent remainder (calibration: <= 0.022 sd over 600 ladders) in '
               'this workload domain (time_step <= 0.5 s, IMU step 12.5 ms, horizon <= 40 s)']
REQUIRED_OBS = ['transparent_with_small_capacity', 'sd_steps_decided', 'zero_data_sd_compared', 'transparent_runs', 'transparent_with_outside_samples', 'transparent_with_default_measurements', 'ladder_runs', 'ladders_decided',
                'rerun_checks', 'scale_misal_ladders', 'two_d_ladders', 'ladders_with_two_epochs_in_one_imu_interval', 'ladders_with_roll_through_180', 'ladders_with_decimated_feedforward_trajectory', 'ladders_with_large_time_origin']
REQUIRED_CLASSES = {'all': ['transparent', 'ladder', 'rerun']}
F_ALLOW = 0.05
F_ALLOW_OFFGRID = 0.15
TERR = ['north', 'east', 'down', 'VN', 'VE', 'VD', 'roll', 'pitch', 'heading']
LLA = ['lat', 'lon', 'alt']
VEL = ['VN', 'VE', 'VD']


def setup():
    patch.import_all()
    events.install()
    schedules.fine_truth()


def cases(seed, tier):
    out = []
    nt, nl, nr = (120, 24, 24) if tier == 'quick' else (4000, 500, 600)
    for i in range(nt):
        out.append(dict(seed=int(seed) * 1000003 + i, cls='transparent', cost=3))
    for i in range(nl):
        out.append(dict(seed=int(seed) * 1000003 + 300000 + i, cls='ladder', cost=40))
    for i in range(nr):
        out.append(dict(seed=int(seed) * 1000003 + 600000 + i, cls='rerun', cost=8))
    return out


def bits_equal(a, b):
    a = np.ascontiguousarray(np.asarray(a, float))
    b = np.ascontiguousarray(np.asarray(b, float))
    return a.shape == b.shape and np.array_equal(a.view(np.uint64), b.view(np.uint64))


def run_transparent(case, out, obs):
    from pyins import filters, strapdown, measurements, sim
    S = schedules.build(case['seed'])
    rng = np.random.Generator(np.random.PCG64(case['seed'] + 11))
    start, end = S['start'], S['end']
    # move every stream outside [start, end)
    sensors = []
    for m in S['sensors']:
        n = int(rng.integers(0, 5))
        e = np.unique(np.r_[start - rng.uniform(1e-9, 2.0, n), end + rng.uniform(0, 2.0, n), end if rng.random() < 0.5 else end + 1.0,
                            np.nextafter(start, -np.inf)])
        if rng.random() < 0.2:
            e = np.array([])
        ref = schedules.truth_at(e)
        if type(m).__name__ == 'Position':
            data = sim.generate_position_measurements(ref, 1.0, 1) if len(e) else m.data.iloc[:0]
            sensors.append(measurements.Position(data, 1.0, m.imu_to_antenna_b))
        elif type(m).__name__ == 'NedVelocity':
            data = sim.generate_ned_velocity_measurements(ref, 0.3, 1) if len(e) else m.data.iloc[:0]
            sensors.append(measurements.NedVelocity(data, 0.3, m.imu_to_antenna_b))
        else:
            data = sim.generate_body_velocity_measurements(ref, 0.2, 1) if len(e) else m.data.iloc[:0]
            sensors.append(measurements.BodyVelocity(data, 0.2))
    meas = sensors if sensors else S['measurements']
    err = pd.Series(S['init_err'], index=TERR)
    initial = sim.perturb_pva(S['traj'].iloc[0], err)
    if not S['with_altitude'] and rng.random() < 0.6:
        initial['VD'] = 0.0          # see the zero-data comparison below
    # a small buffer capacity of the real Integrator class, so that growth happens in the middle of the filter run (the filter integrates in
    # batches, plain strapdown in one call): transparency must hold across growth boundaries as well
    default_size = strapdown.Integrator.INITIAL_SIZE
    strapdown.Integrator.INITIAL_SIZE = int(rng.choice([3, 8, 17, default_size]))
    obs['transparent_with_small_capacity'] = int(strapdown.Integrator.INITIAL_SIZE != default_size)
    events.start()
    try:
        r = filters.run_feedback_filter(initial, 5, 1, 0.5, 1.0, S['increments'], S['gyro_model'], S['accel_model'], measurements=meas,
                                        time_step=S['time_step'], with_altitude=S['with_altitude'])
    except Exception as e:
        import traceback
        events.stop()
        strapdown.Integrator.INITIAL_SIZE = default_size
        out.append(vio('exception', f'{type(e).__name__}: {e}', tb=traceback.format_exc()[-1200:], schedule=S['describe']))
        return dict(schedule=S['describe'])
    finally:
        strapdown.Integrator.INITIAL_SIZE = default_size
    ev = events.stop()
    I = strapdown.Integrator(initial, S['with_altitude'])
    # plain strapdown: the recorder is off, so this call leaves no event
    I.integrate(S['increments'])
    obs['transparent_runs'] = 1
    obs['transparent_with_outside_samples'] = int(bool(sensors) and any(len(s.data) for s in sensors))
    obs['transparent_with_default_measurements'] = int(not sensors)
    n_correct = sum(e['kind'] == 'correct' for e in ev)
    n_update = sum(e['kind'] == 'update_estimates' for e in ev)
    n_hits = sum(e['kind'] == 'compute_matrices' and e['hit'] for e in ev)
    if n_correct or n_update or n_hits:
        out.append(vio('not_transparent_events', f'no sample lies in [start, end) but the run made {n_correct} corrections, {n_update} estimate updates, '
                       f'{n_hits} measurement hits', schedule=S['describe']))
    tr = r['trajectory']
    if list(tr.columns) != list(I.trajectory.columns) or not bits_equal(np.asarray(tr.index), np.asarray(I.trajectory.index)) \
            or not bits_equal(tr.values, I.trajectory.values):
        d = 'shape' if tr.shape != I.trajectory.shape else f'max abs diff {np.abs(tr.values - I.trajectory.values).max():.3e}'
        out.append(vio('not_transparent', f'feedback trajectory without measurements in the span differs from plain strapdown integration ({d}); '
                       f'time_step={S["time_step"]} models={S["model_kind"]} with_altitude={S["with_altitude"]}', schedule=S['describe']))
    for nm in ('gyro', 'accel'):
        if len(r[nm].columns) and np.any(r[nm].values != 0):
            out.append(vio('estimates_without_data', f'{nm} estimates non-zero although no measurement was processed', schedule=S['describe']))
    # zero-data limit of clause (b): without any feedback the two filters propagate the same covariance about the same (plain strapdown)
    # trajectory on the same time grid, so every standard deviation must agree to rounding whatever the error size
    # (in 2-D mode only for a level initial state: the feedback filter builds its initial covariance with the caller's VD, which the
    # integrator then discards - a 1e-5 inconsistency of the initial sd that is no part of any property here)
    if not S['with_altitude'] and initial['VD'] != 0.0:
        return dict(schedule=S['describe'], rows=len(tr))
    try:
        from pyins import inertial_sensor
        gm2 = S['gyro_model'] if S['gyro_model'] is not None else inertial_sensor.EstimationModel()
        am2 = S['accel_model'] if S['accel_model'] is not None else inertial_sensor.EstimationModel()
        ff = filters.run_feedforward_filter(I.trajectory, I.trajectory, 5, 1, 0.5, 1.0, gm2, am2, measurements=meas, increments=S['increments'],
                                            time_step=S['time_step'], with_altitude=S['with_altitude'])
        idx = ff['trajectory_sd'].index.intersection(r['trajectory_sd'].index)
        obs['zero_data_sd_compared'] = 1
        obs['zero_data_common_rows'] = len(idx)
        if len(idx) < 0.8 * len(ff['trajectory_sd']):
            out.append(vio('zero_data_grid', f'without measurements the filters use different time grids: {len(idx)} common of {len(ff["trajectory_sd"])} / '
                           f'{len(r["trajectory_sd"])} rows', schedule=S['describe']))
        for key in ('trajectory_sd', 'gyro_sd', 'accel_sd'):
            a_, b_ = r[key].loc[idx].values.astype(float), ff[key].loc[idx].values.astype(float)
            if a_.size == 0:
                continue
            rel = np.abs(a_ - b_) / np.maximum(np.abs(b_), 1e-300)
            rel = np.where(np.abs(b_) > 0, rel, np.abs(a_))
            obs['max_zero_data_sd_rel_x1e9'] = max(obs.get('max_zero_data_sd_rel_x1e9', 0), int(1e9 * min(rel.max(), 1.0)))
            if rel.max() > 1e-6:
                i, j = np.unravel_index(np.argmax(rel), rel.shape)
                out.append(vio('zero_data_sd', f'{key}[{r[key].columns[j]}] at t={idx[i]}: feedback {a_[i, j]:.9e}, feedforward {b_[i, j]:.9e} although no '
                               f'measurement was processed (rel {rel[i, j]:.2e}); time_step={S["time_step"]} models={S["model_kind"]}', schedule=S['describe']))
                break
    except Exception as e:
        import traceback
        out.append(vio('exception', f'feedforward on the plain strapdown trajectory: {type(e).__name__}: {e}', tb=traceback.format_exc()[-800:], schedule=S['describe']))
    return dict(schedule=S['describe'], rows=len(tr))


def ladder_config(seed):
    rng = np.random.Generator(np.random.PCG64(seed))
    wa = bool(rng.integers(0, 2))
    sm = bool(rng.random() < 0.5)
    T = float(rng.uniform(20, 40))
    ts = float(rng.choice([0.25, 0.5]))
    lla0 = [float(rng.uniform(-70, 70)), float(rng.uniform(-180, 180)), float(rng.uniform(0, 3000))]
    # gentle dynamics: the horizontal speed never drops near zero (|v_mean| >= 2 |v_ampl|), otherwise the velocity-aligned heading spins at
    # rad/s and the piecewise-constant F(t) of the LINEAR MODEL (both filters) leaves a scale-independent first-order remainder of 0.1..0.2 sd
    # (seen in a thorough run: constant 0.15 sd from s0 down to s0/100) that has nothing to do with the feedback
    va = rng.uniform(1, 3, 3) * np.array([1, 1, 0.15 if wa else 0])
    hd_ = rng.uniform(0, 2 * np.pi)
    vm = np.array([np.cos(hd_), np.sin(hd_), 0.0]) * rng.uniform(2.0, 3.5) * np.hypot(va[0], va[1]) + np.array([0, 0, rng.uniform(-0.2, 0.2) if wa else 0.0])
    period = float(rng.uniform(15, 30))
    sensors = [c for c in ('Position', 'NedVelocity', 'BodyVelocity') if rng.random() < 0.6] or ['Position']
    crng = np.random.Generator(np.random.PCG64(seed + 5))
    clustered = bool(crng.random() < 0.4)
    if clustered and len(sensors) < 2:
        sensors = sensors + [c for c in ('NedVelocity', 'Position') if c not in sensors][:1]
    inverted = bool(crng.random() < 0.3)
    decimate = int(crng.choice([1, 1, 2, 4]))
    t_origin = float(crng.choice([0.0, 0.0, 4e5]))
    if decimate > 1:
        clustered = False          # (between rows the feedforward filter interpolates the computed trajectory linearly: an unscaled error of its own)
    return dict(clustered=clustered, inverted=inverted, decimate=decimate, t_origin=t_origin, wa=wa, sm=sm, T=T, ts=ts, lla0=lla0, vm=vm.tolist(), va=va.tolist(), period=period, sensors=sensors,
                e_pos=(rng.uniform(-1, 1, 3)).tolist(), e_vel=(rng.uniform(-1, 1, 3)).tolist(), e_att=(rng.uniform(-1, 1, 3)).tolist(),
                gb=(rng.uniform(-1, 1, 3) * 1e-4).tolist(), ab=(rng.uniform(-1, 1, 3) * 0.03).tolist(),
                smat=(rng.uniform(-1, 1, (3, 3)) * 1e-3).tolist(), nseed=int(rng.integers(0, 2 ** 31)),
                offgrid=bool(rng.integers(0, 2)), dense=bool(rng.random() < 0.4), shared=bool(rng.random() < 0.5), scale0=float(10 ** rng.uniform(-0.15, 0.18)))


def ladder_run(cfg, s):
    from pyins import filters, sim, strapdown, measurements, inertial_sensor, transform
    DT = 0.0125
    wa = cfg['wa']
    # increment-type IMU: its strapdown truncation error (the UNSCALED part of the scenario) is ~50x below that of rate samples, which keeps
    # the ladder inside the 'error scale s' regime also when dense accurate fixes shrink the standard deviations to mm/s
    ST = 'increment'
    traj, imu = sim.generate_sine_velocity_motion(DT, cfg['T'], cfg['lla0'], cfg['vm'], cfg['va'], cfg['period'], sensor_type=ST)
    if cfg.get('t_origin'):
        # stamps in seconds of week instead of seconds since start: nothing but the labels changes
        traj = traj.set_axis(pd.Index(np.asarray(traj.index, float) + cfg['t_origin'], name=traj.index.name))
        imu = imu.set_axis(pd.Index(np.asarray(imu.index, float) + cfg['t_origin'], name=imu.index.name))
    if cfg.get('inverted'):
        # IMU mounted upside down and rocking: roll swings through +-180 (attitude averaging / interpolation across the roll wrap)
        tt_ = np.asarray(traj.index, float)
        rph_ = traj[['roll', 'pitch', 'heading']].values.copy()
        rph_[:, 0] = (180.0 + 8.0 * np.sin(0.9 * tt_ + 0.3) + 180.0) % 360.0 - 180.0
        traj, imu = sim.generate_imu(tt_, traj[LLA].values, rph_, traj[VEL].values, sensor_type=ST)
    pos_sd, vel_sd, lev_sd, az_sd = 10 * s, 1 * s, 0.5 * s, 2 * s
    Tm = np.eye(3) + (np.array(cfg['smat']) * s if cfg['sm'] else 0)
    gp = inertial_sensor.Parameters(transform=Tm, bias=np.array(cfg['gb']) * s)
    ap = inertial_sensor.Parameters(transform=np.eye(3) + (np.diag(np.diag(np.array(cfg['smat']))) * s if cfg['sm'] else 0), bias=np.array(cfg['ab']) * s)
    inc = strapdown.compute_increments_from_imu(inertial_sensor.apply_imu_parameters(imu, ST, gp, ap), ST)
    nrm = np.random.RandomState(cfg['nseed']).randn(400, 3)         # one recorded normal sample, scaled with s
    t = np.asarray(traj.index, float)
    meas = []
    k = 0
    prev_e = np.array([])
    for j, cls in enumerate(cfg['sensors']):
        every = (2.0 + j * 0.75) if not cfg.get('dense') else (0.3 + 0.2 * j)      # dense: fixes cut most covariance steps short
        e = np.arange(t[0] + 1.0 + 0.4 * j, t[-1] - 0.5, every)
        tg = t[::int(cfg.get('decimate', 1))]
        base = tg[np.clip(np.searchsorted(tg, e), 0, len(tg) - 2)]
        e = base
        off_j = DT * [0.37, 0.62, 0.18][j % 3]
        if cfg['offgrid'] and not cfg.get('clustered') and cfg.get('decimate', 1) == 1:
            e = e + DT * 0.37
        if cfg.get('clustered'):
            # unsynchronised receivers: each sensor has its own offset inside the IMU interval, and this sensor also reports in every other
            # interval the previous one reported in - two DISTINCT measurement epochs between the same two IMU samples
            if j > 0 and len(prev_base):
                base = np.unique(np.r_[base, prev_base[::2]])
            e = base + off_j
            prev_base = base
        elif j > 0 and cfg.get('shared') and len(prev_e):
            e = np.unique(np.r_[e, prev_e[::2]])           # epochs shared with the previous sensor (one receiver, two observables)
        if j == 0:
            prev_base = base
        prev_e = e
        ref = transform.resample_state(traj, e)
        nn = nrm[k:k + len(e)]
        k += len(e)
        if cls == 'Position':
            lever = [0.8, -0.4, 0.2] if j % 2 == 0 else None
            at = transform.translate_trajectory(ref, lever) if lever is not None else ref      # the antenna, not the IMU, is measured
            data = pd.DataFrame(transform.perturb_lla(at[LLA].values, 2 * s * nn), index=ref.index, columns=LLA)
            meas.append(measurements.Position(data, 2 * s, lever))
        elif cls == 'NedVelocity':
            data = pd.DataFrame(ref[VEL].values + 0.2 * s * nn, index=ref.index, columns=VEL)
            meas.append(measurements.NedVelocity(data, 0.2 * s))
        else:
            data = sim.generate_body_velocity_measurements(ref, 0.0, 0)
            data = data + 0.1 * s * nn
            meas.append(measurements.BodyVelocity(data, 0.1 * s))
    err = pd.Series(np.r_[pos_sd * np.array(cfg['e_pos']), vel_sd * np.array(cfg['e_vel']), lev_sd * cfg['e_att'][0], lev_sd * cfg['e_att'][1],
                          az_sd * cfg['e_att'][2]], index=TERR)
    if not wa:
        err['down'] = 0.0
        err['VD'] = 0.0
    init = sim.perturb_pva(traj.iloc[0], err)

    def models():
        return (inertial_sensor.EstimationModel(bias_sd=2e-4 * s, noise=1e-6 * s, scale_misal_sd=(1e-3 * s * np.ones((3, 3)) if cfg['sm'] else None)),
                inertial_sensor.EstimationModel(bias_sd=0.03 * s, noise=1e-4 * s,
                                                scale_misal_sd=(np.diag([2e-3, 1e-3, 2e-3]) * s if cfg['sm'] else None)))
    g, a = models()
    fb = filters.run_feedback_filter(init, pos_sd, vel_sd, lev_sd, az_sd, inc, g, a, measurements=meas, time_step=cfg['ts'], with_altitude=wa)
    I = strapdown.Integrator(init, wa)
    I.integrate(inc)
    # the feedforward filter may be given the computed trajectory at a lower rate than the increments (every 2nd / 4th row): its rows are then
    # not one-to-one with the increments rows
    comp = I.trajectory.iloc[::int(cfg.get('decimate', 1))]
    g, a = models()
    ff = filters.run_feedforward_filter(comp, comp, pos_sd, vel_sd, lev_sd, az_sd, g, a, measurements=meas, increments=inc, time_step=cfg['ts'],
                                        with_altitude=wa)
    idx = ff['trajectory'].index.intersection(fb['trajectory_sd'].index)
    sdf = ff['trajectory_sd'].loc[idx].replace(0, np.nan)
    d = transform.compute_state_difference(fb['trajectory'].loc[idx], ff['trajectory'].loc[idx]) / sdf
    dg = (fb['gyro'].loc[idx] - ff['gyro'].loc[idx]) / ff['gyro_sd'].loc[idx]
    da = (fb['accel'].loc[idx] - ff['accel'].loc[idx]) / ff['accel_sd'].loc[idx]
    rsd = (fb['trajectory_sd'].loc[idx] / sdf - 1)
    rg = fb['gyro_sd'].loc[idx] / ff['gyro_sd'].loc[idx] - 1
    ra = fb['accel_sd'].loc[idx] / ff['accel_sd'].loc[idx] - 1
    return dict(common=len(idx), ff_rows=len(ff['trajectory']), traj=float(np.nanmax(np.abs(d.values))),
                sens=float(max(np.nanmax(np.abs(dg.values)), np.nanmax(np.abs(da.values)))),
                sd=float(max(np.nanmax(np.abs(rsd.values)), np.nanmax(np.abs(rg.values)), np.nanmax(np.abs(ra.values)))))


def run_ladder(case, out, obs):
    cfg = ladder_config(case['seed'])
    res = []
    try:
        for s in (1.0, 0.1):
            res.append(ladder_run(cfg, s * cfg['scale0']))
    except Exception as e:
        import traceback
        out.append(vio('exception', f'{type(e).__name__}: {e}', tb=traceback.format_exc()[-1200:], config=cfg))
        return dict(config=cfg)
    obs['ladder_runs'] = len(res)
    obs['scale_misal_ladders'] = int(cfg['sm'])
    obs['two_d_ladders'] = int(not cfg['wa'])
    obs['ladders_with_decimated_feedforward_trajectory'] = int(cfg.get('decimate', 1) > 1)
    obs['ladders_with_large_time_origin'] = int(bool(cfg.get('t_origin')))
    obs['ladders_with_roll_through_180'] = int(bool(cfg.get('inverted')))
    obs['ladders_with_two_epochs_in_one_imu_interval'] = int(bool(cfg.get('clustered')))
    if cfg.get('clustered'):
        obs['max_clustered_traj_d_s_10_x1000'] = 0
    if min(r['common'] for r in res) < 0.5 * res[0]['ff_rows']:
        return dict(config=cfg, inconclusive_grid='the two filters share fewer than half of their grid times')
    obs['ladders_decided'] = 1
    desc = f'with_altitude={cfg["wa"]} scale_misal={cfg["sm"]} time_step={cfg["ts"]} sensors={cfg["sensors"]} offgrid={cfg["offgrid"]} T={cfg["T"]:.0f}'
    for key, what in (('traj', 'trajectory'), ('sens', 'sensor-parameter estimates')):
        dv = [r[key] for r in res]
        obs[f'max_{key}_d_s_x1000'] = int(1000 * dv[0])
        obs[f'max_{key}_d_s_10_x1000'] = int(1000 * dv[1])
        if cfg.get('clustered'):
            obs['max_clustered_traj_d_s_10_x1000'] = max(obs['max_clustered_traj_d_s_10_x1000'], int(1000 * dv[1]))
        for a_, b_, lab in ((dv[0], dv[1], 's -> s/10'),):
            # measurements BETWEEN IMU samples leave a larger scale-independent remainder (both filters predict / interpolate to the epoch in their own
            # way): 0.10 sd seen in a thorough run with dense, clustered off-grid fixes (1 of 500 ladders above the on-grid allowance)
            allow_ = F_ALLOW_OFFGRID if (cfg.get('clustered') or cfg.get('offgrid')) else F_ALLOW
            if b_ > 0.25 * a_ + allow_:
                out.append(vio('first_order_disagreement', f'{what}: feedback vs feedforward disagreement {a_:.3e} sd -> {b_:.3e} sd for {lab}: does not shrink '
                               f'in proportion to the error scale (d = {dv}); {desc}', config=cfg))
    rs = [r['sd'] for r in res]
    obs['max_sd_ratio_s_x1000'] = int(1000 * rs[0])
    for a_, b_, lab in ((rs[0], rs[1], 's -> s/10'),):
        if a_ > 0.5:
            # saturated: |sd ratio - 1| of order one is outside the small-error regime the property speaks about (seen with
            # body-velocity-only aiding); the step is counted, not decided
            obs['sd_steps_saturated_not_decided'] = obs.get('sd_steps_saturated_not_decided', 0) + 1
            continue
        obs['sd_steps_decided'] = obs.get('sd_steps_decided', 0) + 1
        if b_ > 0.25 * a_ + 1e-3:
            out.append(vio('sd_disagreement', f'standard deviations: |sd_fb / sd_ff - 1| {a_:.3e} -> {b_:.3e} for {lab}: not shrinking with the error scale (r = {rs}); {desc}',
                           config=cfg))
    return dict(config=cfg, d_traj=[r['traj'] for r in res], d_sens=[r['sens'] for r in res], r_sd=rs, common=res[0]['common'])


def flat(r):
    outp = []
    for k in ('trajectory', 'trajectory_sd', 'gyro', 'gyro_sd', 'accel', 'accel_sd'):
        outp.append((k, np.asarray(r[k].index, float), np.asarray(r[k].values, float)))
    for k, v in r['innovations'].items():
        outp.append(('innovations.' + k, np.asarray(v.index, float), np.asarray(v.values, float)))
    return outp


def run_rerun(case, out, obs):
    from pyins import filters, sim
    S = schedules.build(case['seed'])
    which = 'feedback' if case['seed'] % 2 == 0 else 'feedforward'
    err = pd.Series(S['init_err'], index=TERR)
    initial = sim.perturb_pva(S['traj'].iloc[0], err)
    from pyins import inertial_sensor
    gm = S['gyro_model'] if S['gyro_model'] is not None else inertial_sensor.EstimationModel(bias_sd=1e-4)
    am = S['accel_model'] if S['accel_model'] is not None else inertial_sensor.EstimationModel(bias_sd=1e-2)
    runs = []
    try:
        for k in range(2):
            if which == 'feedback':
                runs.append(filters.run_feedback_filter(initial, 5, 1, 0.5, 1.0, S['increments'], gm, am, measurements=S['measurements'],
                                                        time_step=S['time_step'], with_altitude=S['with_altitude']))
            else:
                runs.append(filters.run_feedforward_filter(S['traj'], S['traj'] * 1.0, 5, 1, 0.5, 1.0, gm, am, measurements=S['measurements'],
                                                           increments=S['increments'], time_step=S['time_step'], with_altitude=S['with_altitude']))
    except Exception as e:
        import traceback
        out.append(vio('exception', f'{type(e).__name__}: {e}', tb=traceback.format_exc()[-1200:], schedule=S['describe']))
        return dict(schedule=S['describe'])
    obs['rerun_checks'] = 1
    obs['rerun_with_estimates_left'] = int(which == 'feedback' and (np.any(gm.bias != 0) or np.any(am.bias != 0)))
    for (k1, i1, v1), (k2, i2, v2) in zip(flat(runs[0]), flat(runs[1])):
        if not (bits_equal(i1, i2) and bits_equal(v1, v2)):
            d = 'shape' if v1.shape != v2.shape else f'max abs diff {np.nanmax(np.abs(v1 - v2)):.3e}'
            out.append(vio('state_leak_between_runs', f'{which}: re-running with the same model objects changes {k1} ({d})', schedule=S['describe']))
            break
    return dict(schedule=S['describe'], filter=which)


def run_case(case):
    obs = {}
    out = []
    sample = {'transparent': run_transparent, 'ladder': run_ladder, 'rerun': run_rerun}[case['cls']](case, out, obs)
    extra = {}
    if 'inconclusive_grid' in sample:
        extra['inconclusive'] = sample['inconclusive_grid']
    return dict(violations=out[:8], obs=obs, nontrivial=True, sample=dict(cls=case['cls'], **sample), **extra)
