"""C14 - sensor error simulation and estimation models are exact mutual inverses.

Monitors: an icontract class invariant on the real inertial_sensor.EstimationModel
(structure derived independently from the enable mask, re-checked after every
public method), round-trip postconditions (simulate noise-free with Parameters,
feed the parameters through update_estimates in 1..4 partial updates,
correct_increments must return the clean data; output_matrix @ state equals the
simulated reading error), naming agreement between Parameters.data_frame and the
model states, and deterministic read-out of the noise scaling through a recording
RandomState (no statistics, hence no false-alarm probability).
"""
import numpy as np
import pandas as pd
import icontract

from rv.core import vio, Violation
from rv.instrument import patch

ID = 'C14'
RULE = ('enable masks: 3 bias x 3 walk (only where bias) x 3 noise x 9 scale/misalignment entries, sampled uniformly '
        '(quick) or enumerated completely for the structural invariant (thorough: all 110592 admissible masks of the '
        '2^18); disabled encoded as None / 0.0, scalar and array parameter forms; parameter values over 6 decades; '
        'rate and increment types, irregular stamps, Series and DataFrame increment forms; non-trivial = not one of '
        'the four hand-written configurations of the existing tests; distinct = distinct (mask, values)'
        ' Round 3: integer-typed irregular time index (whole seconds); random update / reset / correct / read-back histories on one model against a fresh model holding the same estimates.'
        ' Round 4: disabled axes marked by negative elements (documented) as well as by zeros.'
        ' Round 5: updates of the wrong length inside the call histories - refused (ValueError) and leaving no trace in the estimates.')
ASSUMPTIONS = ['noise scaling is read off deterministically through a RandomState subclass that records randn']
REQUIRED_OBS = ['rejected_updates', 'negative_disable_marks', 'integer_typed_time_index', 'history_corrections_checked', 'invariant_evaluations', 'roundtrip_checked', 'output_matrix_checked', 'split_updates_checked',
                'naming_checked', 'noise_scaling_checked', 'walk_scaling_checked', 'from_model_checked']
REQUIRED_CLASSES = {'quick': ['mask_random'], 'thorough': ['mask_random', 'mask_exhaustive']}
EXHAUSTIVE = {'quick': False, 'thorough': False}
XYZ = 'xyz'
OBS = {}
LAST_KW = {}


class InvariantBroken(Exception):
    pass


def bump(k, m=1):
    OBS[k] = OBS.get(k, 0) + int(m)


def expected_structure(bias_on, walk_on, noise_on, sm_on):
    states = [f'bias_{XYZ[a]}' for a in range(3) if bias_on[a]]
    walk_states = [states.index(f'bias_{XYZ[a]}') for a in range(3) if bias_on[a] and walk_on[a]]
    sm = [(o, i) for o in range(3) for i in range(3) if sm_on[o][i]]
    states += [f'sm_{XYZ[o]}{XYZ[i]}' for o, i in sm]
    return states, walk_states, sm


def model_consistent(self):
    """Class invariant of EstimationModel: all pieces describe the same enabled set."""
    bump('invariant_evaluations')
    n = self.n_states
    ok = (len(self.states) == n and self.P.shape == (n, n) and self.F.shape == (n, n)
          and self.G.shape == (n, self.n_noises) and self.H.shape == (3, n)
          and self.q.shape == (self.n_noises,) and self.J.shape == (3, self.n_output_noises)
          and self.v.shape == (self.n_output_noises,) and len(set(self.states)) == n)
    if not ok:
        return False
    bias_on = self.bias_sd > 0
    walk_on = self.bias_walk > 0
    noise_on = self.noise > 0
    sm_on = self.scale_misal_sd > 0
    states, walk_states, sm = expected_structure(bias_on, walk_on, noise_on, sm_on)
    if list(self.states) != states:
        return False
    if self.scale_misal_modelled != bool(sm):
        return False
    P = np.zeros((n, n))
    k = 0
    H = np.zeros((3, n))
    for a in range(3):
        if bias_on[a]:
            P[k, k] = self.bias_sd[a] ** 2
            H[a, k] = 1
            k += 1
    for o, i in sm:
        P[k, k] = self.scale_misal_sd[o, i] ** 2
        k += 1
    if not np.array_equal(self.P, P) or not np.array_equal(self.H, H) or np.any(self.F != 0):
        return False
    G = np.zeros((n, len(walk_states)))
    for j, s in enumerate(walk_states):
        G[s, j] = 1
    if not np.array_equal(self.G, G):
        return False
    if not np.array_equal(self.q, np.asarray([self.bias_walk[a] for a in range(3) if bias_on[a] and walk_on[a]], float)):
        return False
    J = np.zeros((3, int(noise_on.sum())))
    for j, a in enumerate(np.nonzero(noise_on)[0]):
        J[a, j] = 1
    if not np.array_equal(self.J, J) or not np.array_equal(self.v, self.noise[noise_on].astype(float)):
        return False
    # estimates: transform / bias only ever differ from nominal on enabled entries
    if self.transform.shape != (3, 3) or self.bias.shape != (3,):
        return False
    off = (self.transform - np.eye(3)) != 0
    if np.any(off & ~sm_on) or np.any((self.bias != 0) & ~bias_on):
        return False
    return True


def setup():
    patch.import_all()
    from pyins import inertial_sensor
    icontract.invariant(model_consistent, error=InvariantBroken)(inertial_sensor.EstimationModel)
    for n in ['update_estimates', 'reset_estimates', 'correct_increments', 'output_matrix', 'get_estimates']:
        patch.wrap(inertial_sensor.EstimationModel, n, counter='calls_' + n)
    patch.wrap(inertial_sensor.Parameters, 'apply', counter='calls_Parameters.apply')


class RecordingRandomState(np.random.RandomState):
    def __init__(self, seed):
        super().__init__(seed)
        self.record = []

    def randn(self, *shape):
        v = super().randn(*shape)
        self.record.append(v.copy())
        return v


def mask_from_index(idx):
    """Enumerates admissible masks: per axis (bias, walk) in {00, 10, 11}; noise 3 bits; sm 9 bits."""
    bw = idx % 27
    idx //= 27
    nz = idx % 8
    idx //= 8
    sm = idx % 512
    bias_on, walk_on = [], []
    for a in range(3):
        c = bw % 3
        bw //= 3
        bias_on.append(c >= 1)
        walk_on.append(c == 2)
    noise_on = [(nz >> a) & 1 == 1 for a in range(3)]
    sm_on = [[(sm >> (3 * o + i)) & 1 == 1 for i in range(3)] for o in range(3)]
    return bias_on, walk_on, noise_on, sm_on


N_MASKS = 27 * 8 * 512


def cases(seed, tier):
    out = []
    n = 1600 if tier == 'quick' else 40000
    for i in range(n):
        out.append(dict(seed=int(seed) * 1000003 + i, cls='mask_random', cost=1))
    if tier == 'thorough':
        chunk = 512
        for start in range(0, N_MASKS, chunk):
            out.append(dict(cls='mask_exhaustive', start=start, stop=min(N_MASKS, start + chunk), seed=start, cost=40))
    return out


def encode(rng, on, values, shape, allow_scalar=True):
    on = np.asarray(on, bool)
    if not on.any():
        r = rng.random()
        return None if r < 0.5 else (0.0 if r < 0.75 else np.zeros(shape))
    if on.all() and allow_scalar and rng.random() < 0.3:
        return float(values.flat[0])
    # a disabled axis is marked by ANY non-positive element (documented): zero or a negative flag such as -1
    off = np.where(rng.random(np.shape(values)) < 0.4, -10 ** rng.uniform(-3, 1, np.shape(values)), 0.0)
    a = np.where(on, values, off)
    if (a < 0).any():
        bump('negative_disable_marks')
    if on.all() and allow_scalar:
        return a
    return a if rng.random() < 0.7 else a.tolist()


def build_model(rng, mask):
    from pyins import inertial_sensor
    bias_on, walk_on, noise_on, sm_on = mask
    bias_sd = 10 ** rng.uniform(-6, 0, 3)
    walk = 10 ** rng.uniform(-7, -1, 3)
    noise = 10 ** rng.uniform(-6, 0, 3)
    sm = 10 ** rng.uniform(-5, -1, (3, 3))
    kw = dict(bias_sd=encode(rng, bias_on, bias_sd, (3,)), noise=encode(rng, noise_on, noise, (3,)),
              bias_walk=encode(rng, walk_on, walk, (3,)), scale_misal_sd=encode(rng, sm_on, sm, (3, 3)))
    LAST_KW.clear()
    LAST_KW.update(kw)
    return inertial_sensor.EstimationModel(**kw), kw


def run_case(case):
    from pyins import inertial_sensor
    OBS.clear()
    out = []

    def fail(kind, msg, **d):
        if len(out) < 10:
            out.append(vio(kind, msg, **d))

    if case['cls'] == 'mask_exhaustive':
        rng = np.random.Generator(np.random.PCG64(case['start'] + 99))
        for idx in range(case['start'], case['stop']):
            mask = mask_from_index(idx)
            try:
                model, kw = build_model(rng, mask)
                st, ws, sm = expected_structure(*mask)
                if model.states != st:
                    fail('state_names', f'mask {idx}: states {model.states} expected {st}')
                model.update_estimates(np.arange(1, model.n_states + 1) * 1e-3)
                model.get_estimates()
                model.reset_estimates()
            except InvariantBroken as e:
                fail('class_invariant', f'mask {idx}: EstimationModel pieces inconsistent ({e}) for {jsonable_kw(LAST_KW)}')
            except Exception as e:
                fail('exception', f'mask {idx}: {type(e).__name__}: {e}')
        n = case['stop'] - case['start']
        return dict(violations=out, obs=dict(OBS), nontrivial=True, evals=n, nontrivial_count=n,
                    sample=dict(cls='mask_exhaustive', first_mask=case['start'], last_mask=case['stop'] - 1))

    rng = np.random.Generator(np.random.PCG64(case['seed']))
    mask = mask_from_index(int(rng.integers(0, N_MASKS)))
    bias_on, walk_on, noise_on, sm_on = [np.asarray(m) for m in mask]
    sensor_type = str(rng.choice(['rate', 'increment']))
    try:
        model, kw = build_model(rng, mask)
        n = model.n_states
        # ---- (c) from_EstimationModel is non-trivial exactly on the enabled entries ----------------------
        par = inertial_sensor.Parameters.from_EstimationModel(model, rng=int(rng.integers(0, 2 ** 31)))
        bump('from_model_checked')
        if np.any(((par.transform - np.eye(3)) != 0) != sm_on) or np.any((par.bias != 0) != bias_on):
            fail('from_model_mask', 'from_EstimationModel parameters are not non-trivial exactly on the enabled entries')
        if not np.array_equal(par.noise, np.maximum(model.noise, 0)) or not np.array_equal(par.bias_walk, np.maximum(model.bias_walk, 0)):
            fail('from_model_noise', 'from_EstimationModel did not carry noise / bias_walk over')
        # ---- simulated data, noise-free -------------------------------------------------------------------
        m = int(rng.integers(5, 40))
        t = np.cumsum(rng.uniform(0.005, 0.05, m)) if rng.random() < 0.6 else np.arange(1, m + 1) * 0.01
        if case['seed'] % 6 == 5:
            # whole-second stamps kept in an integer-typed index (irregular: intervals of 1, 2 and 3 s)
            t = np.cumsum(rng.integers(1, 4, m)).astype(np.int64) + int(rng.integers(0, 1000))
            bump('integer_typed_time_index')
        cols = ['gyro_x', 'gyro_y', 'gyro_z'] if rng.random() < 0.5 else ['accel_x', 'accel_y', 'accel_z']
        clean = pd.DataFrame(rng.standard_normal((m, 3)) * 10 ** rng.uniform(-3, 1), index=pd.Index(t, name='time'), columns=cols)
        T = np.eye(3) + np.where(sm_on, rng.standard_normal((3, 3)) * 10 ** rng.uniform(-9, -1, (3, 3)), 0.0)     # ppm-level and below included
        b = np.where(bias_on, rng.standard_normal(3) * 10 ** rng.uniform(-9, 0, 3), 0.0)
        sim_par = inertial_sensor.Parameters(T, b)
        noisy = sim_par.apply(clean, sensor_type)
        dt = np.hstack([0, np.diff(t)])
        dt[0] = dt[1]
        # the documented measurement model
        ref = clean.values @ T.T + (b if sensor_type == 'rate' else b * dt[:, None])
        if np.abs(noisy.values - ref).max() > 1e-12 * (1 + np.abs(ref).max()):
            fail('simulated_model', f'noise-free Parameters.apply differs from T x + b by {np.abs(noisy.values - ref).max():.3e}')
        # ---- (c) naming of the parameter table --------------------------------------------------------------
        bump('naming_checked')
        df_cols = list(sim_par.data_frame.columns)
        exp_cols = [s for s in model.states
                    if (s.startswith('bias_') and b[XYZ.index(s[-1])] != 0)
                    or (s.startswith('sm_') and T[XYZ.index(s[3]), XYZ.index(s[4])] != (1 if s[3] == s[4] else 0))]
        if df_cols != exp_cols:
            fail('naming', f'Parameters.data_frame columns {df_cols} vs estimation model states {exp_cols}')
        else:
            for c in df_cols:
                val = b[XYZ.index(c[-1])] if c.startswith('bias_') else T[XYZ.index(c[3]), XYZ.index(c[4])] - (1 if c[3] == c[4] else 0)
                if np.abs(sim_par.data_frame[c].values - val).max() > 1e-15 * (1 + abs(val)):
                    fail('naming_value', f'data_frame[{c}] does not hold the simulated parameter')
        # ---- (b) feed the parameters to the model in partial updates -----------------------------------------
        target = np.array([b[XYZ.index(s[-1])] if s.startswith('bias_') else
                           T[XYZ.index(s[3]), XYZ.index(s[4])] - (1 if s[3] == s[4] else 0) for s in model.states])
        k = int(rng.integers(1, 5))
        w = rng.uniform(0.1, 1, (k, n))
        w = w / w.sum(axis=0) if n else w
        if k >= 2 and n:                      # corrections may go back and forth: bounded, sum kept
            c = rng.uniform(-1, 1, n)
            w[0] += c
            w[1] -= c
        wsum = float(np.abs(w).sum(axis=0).max()) if n else 1.0
        model.reset_estimates()
        for j in range(k):
            model.update_estimates(w[j] * target)
        est = model.get_estimates()
        bump('split_updates_checked')
        if list(est.index) != model.states or (n and np.abs(est.values - target).max() > 64 * np.finfo(float).eps * (1 + (np.abs(w).sum(axis=0) * np.abs(target)).max())):
            fail('split_updates', f'{k} partial updates do not accumulate to their sum: {est.values.tolist()} vs {target.tolist()}')
        single = inertial_sensor.EstimationModel(**kw)
        single.update_estimates(target)
        # ---- correct_increments undoes the simulated error -----------------------------------------------------
        condT = np.linalg.cond(T)
        for form in ('frame', 'series'):
            if sensor_type == 'increment':
                inc, dts, cl = noisy, pd.Series(dt, index=noisy.index), clean
            else:       # x_out = T x + b per sample is the increment model with dt = 1
                inc, dts, cl = noisy, pd.Series(np.ones(m), index=noisy.index), clean
            if form == 'frame':
                got = model.correct_increments(dts, inc)
                got1 = single.correct_increments(dts, inc)
                exp = cl.values
                same_meta = isinstance(got, pd.DataFrame) and list(got.columns) == cols and got.index.equals(inc.index)
            else:
                i = int(rng.integers(0, m))
                got = model.correct_increments(dts.iloc[i], inc.iloc[i])
                got1 = single.correct_increments(dts.iloc[i], inc.iloc[i])
                exp = cl.values[i]
                same_meta = isinstance(got, pd.Series) and list(got.index) == cols and got.name == inc.index[i]
            bump('roundtrip_checked')
            if not same_meta:
                fail('correct_increments_meta', f'{form}: corrected increments lost index / columns / name')
                continue
            tol = 256 * np.finfo(float).eps * condT * (1 + wsum) * (np.abs(inc.values).max() + np.abs(b).max() * max(dt.max(), 1.0) + 1e-300)
            e = np.abs(np.asarray(got.values, float) - exp).max()
            if e > tol:
                fail('roundtrip', f'{form}/{sensor_type}: correct_increments with estimates equal to the simulated parameters leaves '
                     f'{e:.3e} (tol {tol:.3e}); T={T.tolist()} b={b.tolist()}')
            e1 = np.abs(np.asarray(got.values, float) - np.asarray(got1.values, float)).max()
            if e1 > tol:
                fail('split_vs_single', f'{form}: model updated in {k} parts corrects differently from a single update ({e1:.3e})')
        # ---- call histories on ONE model: update / reset / correct / read-back in any order ----------------------------------
        # reference: a fresh model given the sum of the updates since the last reset in one go (an object that remembers anything
        # else - a factorisation of an earlier transform, a stale copy of the bias - answers differently)
        shadow = target.copy()
        dts1 = pd.Series(dt if sensor_type == 'increment' else np.ones(m), index=noisy.index)
        for step in range(int(rng.integers(4, 9))):
            op = str(rng.choice(['update', 'reset', 'correct', 'correct', 'get', 'rejected_update']))
            if op == 'rejected_update':
                # an update of the wrong length (the whole filter state instead of the sensor block, a truncated block) is refused - and must leave
                # no trace: the estimates are still the sum of the ACCEPTED updates
                for bad_len in (n + 3, max(n - 1, 0)):
                    if bad_len == n:
                        continue
                    try:
                        model.update_estimates(np.full(bad_len, 0.37))
                        fail('update_length', f'update_estimates accepted a vector of length {bad_len} for {n} states')
                    except ValueError:
                        pass
                bump('rejected_updates')
                continue
            if op == 'update':
                dx = rng.uniform(-1, 1, n) * np.abs(target)
                model.update_estimates(dx)
                shadow = shadow + dx
            elif op == 'reset':
                model.reset_estimates()
                shadow = np.zeros(n)
            elif op == 'get':
                est = model.get_estimates()
                if n and np.abs(est.values - shadow).max() > 64 * np.finfo(float).eps * (2 + step) * (1 + wsum) * (1 + np.abs(target).max()):     # stored as I + sm: absolute rounding
                    fail('history_estimates', f'after a history of updates / resets get_estimates gives {est.values.tolist()}, the updates since the last reset sum to {shadow.tolist()}')
            else:
                fresh = inertial_sensor.EstimationModel(**kw)
                fresh.update_estimates(shadow)
                g1 = np.asarray(model.correct_increments(dts1, noisy).values, float)
                g2 = np.asarray(fresh.correct_increments(dts1, noisy).values, float)
                bump('history_corrections_checked')
                if np.abs(g1 - g2).max() > 4 * tol * (1 + step):
                    fail('history_dependent_correction', f'{sensor_type}: after a history of update / reset calls correct_increments differs by {np.abs(g1 - g2).max():.3e} '
                         f'from a fresh model holding the same estimates {shadow.tolist()} (tol {4 * tol * (1 + step):.3e})')
                if not shadow.any() and np.abs(g1 - noisy.values).max() > tol:
                    fail('history_dependent_correction', f'{sensor_type}: a model whose estimates were reset does not return the increments unchanged '
                         f'(max change {np.abs(g1 - noisy.values).max():.3e})')
        # ---- output matrix times state = simulated reading error ----------------------------------------------
        for form in ('single', 'stack'):
            bump('output_matrix_checked')
            if form == 'single':
                r = clean.values[0]
                Hm = model.output_matrix(r)
                got = Hm @ target if n else np.zeros(3)
                exp = (T - np.eye(3)) @ r + b
                shp = Hm.shape == (3, n)
            else:
                r = clean.values
                if model.scale_misal_modelled:
                    Hm = model.output_matrix(r)
                    shp = Hm.shape == (m, 3, n)
                    got = np.einsum('kij,j->ki', Hm, target)
                else:
                    Hm = model.output_matrix()
                    shp = Hm.shape == (3, n)
                    got = np.tile(Hm @ target if n else np.zeros(3), (m, 1))
                exp = r @ (T - np.eye(3)).T + b
            if not shp:
                fail('output_matrix_shape', f'{form}: output_matrix shape {Hm.shape}')
            elif np.abs(got - exp).max() > 1e-13 * (1 + np.abs(exp).max()):
                fail('output_matrix', f'{form}: output_matrix(reading) @ state differs from (T - I) reading + b by {np.abs(got - exp).max():.3e}')
        if model.scale_misal_modelled:
            try:
                model.output_matrix()
                fail('output_matrix_required', 'output_matrix() without readings did not raise although scale/misalignment is modelled')
            except ValueError:
                pass
        # ---- (d) noise scaling, read off deterministically ----------------------------------------------------
        noise = np.where(noise_on, 10 ** rng.uniform(-5, 0, 3), 0.0)
        walk = np.where(walk_on, 10 ** rng.uniform(-6, -1, 3), 0.0)
        b_d = b.copy()
        if rng.random() < 0.4:
            b_d[walk_on & (rng.random(3) < 0.7)] = 0.0          # walk on an axis whose constant bias is exactly zero
        rs = RecordingRandomState(int(rng.integers(0, 2 ** 31)))
        npar = inertial_sensor.Parameters(T, b_d, noise, walk, rng=rs)
        got = npar.apply(clean, sensor_type).values
        if len(rs.record) != 2 or rs.record[0].shape != (m, 3):
            fail('rng_protocol', f'Parameters.apply drew {len(rs.record)} normal arrays')
        else:
            W1, W2 = rs.record
            d0 = np.hstack([0, np.diff(t)])
            walk_path = walk * np.cumsum(W1 * np.sqrt(d0)[:, None], axis=0)
            est_model = inertial_sensor.EstimationModel(bias_sd=np.where(bias_on, 1.0, 0.0), noise=noise, bias_walk=walk)
            # what the estimator assumes: bias increments ~ N(0, q^2 dt), output noise PSD v^2
            q_axis = np.zeros(3)
            q_axis[[a for a in range(3) if bias_on[a] and walk_on[a]]] = est_model.q
            v_axis = np.zeros(3)
            v_axis[noise_on] = est_model.v
            bias_t = b_d + q_axis * np.cumsum(W1 * np.sqrt(d0)[:, None], axis=0)
            if sensor_type == 'rate':
                exp = clean.values @ T.T + bias_t + v_axis * dt[:, None] ** -0.5 * W2
            else:
                exp = clean.values @ T.T + bias_t * dt[:, None] + v_axis * dt[:, None] ** 0.5 * W2
            bump('noise_scaling_checked')
            bump('walk_scaling_checked')
            e = np.abs(got - exp).max()
            if e > 1e-12 * (1 + np.abs(exp).max()):
                fail('noise_scaling', f'{sensor_type}: simulated noise / bias walk is not what the estimator assumes '
                     f'(white noise v dt^{"-1/2" if sensor_type == "rate" else "+1/2"}, walk step q dt^1/2): max diff {e:.3e}')
            exp_tab = [f'bias_{XYZ[a]}' for a in range(3) if (b_d[a] != 0 or walk[a] != 0)] + \
                [f'sm_{XYZ[o]}{XYZ[i]}' for o in range(3) for i in range(3) if T[o, i] != (1 if o == i else 0)]
            bump('noisy_table_naming_checked')
            if list(npar.data_frame.columns) != exp_tab:
                fail('naming', f'parameter table columns {list(npar.data_frame.columns)} but non-trivial parameters are {exp_tab} '
                     f'(bias {b_d.tolist()}, bias_walk {walk.tolist()})')
            for a in range(3):
                c = f'bias_{XYZ[a]}'
                if c in npar.data_frame and np.abs(npar.data_frame[c].values - bias_t[:, a]).max() > 1e-12 * (1 + np.abs(bias_t).max()):
                    fail('bias_table', f'data_frame[{c}] is not the simulated bias path')
    except InvariantBroken as e:
        fail('class_invariant', f'EstimationModel pieces inconsistent: {e}; constructor arguments {jsonable_kw(LAST_KW)}')
    except Violation as e:
        out.append(e.as_dict())
    except Exception as e:
        import traceback
        fail('exception', f'{type(e).__name__}: {e}', tb=traceback.format_exc()[-1200:])
    known4 = [([1, 1, 1], [0, 0, 0], [1, 1, 1], 0)]
    return dict(violations=out, obs=dict(OBS), nontrivial=True,
                sample=dict(cls='mask_random', mask=[np.asarray(x).astype(int).tolist() for x in mask], sensor_type=sensor_type))


def jsonable_kw(kw):
    return {k: (v.tolist() if isinstance(v, np.ndarray) else v) for k, v in kw.items()}
