"""C16 - Earth model and geodetic transforms are one coherent ellipsoidal geometry.

Monitors: postconditions on the real functions of pyins.earth / pyins.transform /
the compiled gravity against the independent closed-form WGS-84 model
(rv.oracles.wgs84, mpmath on a subset), round-trip relations, frame/partials
relation by Richardson central differences of the real lla_to_ecef, first-order
ladders for perturb/difference/NED/curvature, parity and scalar-vs-vector forms.
A case is a batch of points of one input class.
"""
import numpy as np

from rv.core import vio
from rv.instrument import patch
from rv.oracles import wgs84 as W

ID = 'C16'
RULE = ('batches of seeded random points per class: exact poles/equator, northern, southern, '
        'longitudes at the +-180 seam, altitude bands -10 km..40000 km (round trip) and -1..100 km '
        '(gravity), scalar calls; every point goes through all relation monitors; non-trivial = '
        'not one of the special points the existing tests use (equator, poles, lat 55 lon 37); '
        'distinct = distinct points'
        ' Round 3: class whole_numbers (int64 arrays, lists of ints, single int rows vs the same numbers as floats; whole-metre ECEF round trip); before every case each function is called on points of the case and the arrays it returns are overwritten by the caller.'
        ' Round 4: metre displacements along the meridian for points 1..300 m from a pole, towards and past it (stacked and single calls), judged through ECEF.')
ASSUMPTIONS = ['closed-form WGS-84 formulas re-typed from the standard; constants shared by value',
               'first-order claims decided by displacement ladders (1 km..1 m), residual <= K d^2 (1+tan^2 lat)/R']
REQUIRED_OBS = ['near_pole_perturbations', 'returned_arrays_overwritten', 'integer_forms_compared', 'ecef_closed_form', 'roundtrip_ecef', 'roundtrip_lla', 'frame_partials',
                'first_order_ladder', 'curvature_ladder', 'gravity_identities', 'parity',
                'scalar_vs_vector', 'compiled_gravity', 'mp_points']
REQUIRED_CLASSES = {'all': ['special', 'north', 'south', 'seam', 'high_alt', 'neg_alt', 'scalar', 'whole_numbers']}
EPS = np.finfo(float).eps
PTS = {'quick': 1500, 'thorough': 20000}


def setup():
    patch.import_all()
    from pyins import earth, transform, _numba_integrate
    for mod, names in ((earth, ['principal_radii', 'gravity', 'gravity_n', 'gravitation_ecef',
                                'curvature_matrix', 'rate_n']),
                       (transform, ['lla_to_ecef', 'ecef_to_lla', 'lla_to_ned', 'perturb_lla',
                                    'compute_lla_difference', 'mat_en_from_ll'])):
        for n in names:
            patch.wrap(mod, n, counter='calls_' + n)
    _numba_integrate.gravity(10.0, 10.0)


def points(case):
    rng = np.random.Generator(np.random.PCG64(case['seed']))
    n = case['n']
    cls = case['cls']
    lat = rng.uniform(-90, 90, n)
    lon = rng.uniform(-180, 180, n)
    alt = rng.uniform(-1000, 100000, n)
    if cls == 'special':
        lat = rng.choice([-90.0, 90.0, 0.0, 45.0, -45.0, 89.999999, -89.999999, 1e-9, -1e-9], n)
        lon = rng.choice([0.0, 180.0, -180.0, 90.0, -90.0, 37.0, 1e-9], n)
    elif cls == 'north':
        lat = rng.uniform(0, 90, n)
    elif cls == 'south':
        lat = rng.uniform(-90, 0, n)
    elif cls == 'seam':
        lon = rng.choice([-180.0, 180.0], n) + rng.choice([0, 1, -1], n) * 10 ** rng.uniform(-12, -1, n)
        lon = np.clip(lon, -180, 180)
    elif cls == 'high_alt':
        alt = 10 ** rng.uniform(5, np.log10(4e7), n)
    elif cls == 'neg_alt':
        alt = rng.uniform(-10000, 0, n)
    return lat, lon, alt


def cases(seed, tier):
    classes = ['special', 'north', 'south', 'seam', 'high_alt', 'neg_alt', 'scalar', 'whole_numbers']
    nb = 3 if tier == 'quick' else 12
    out = []
    for k in range(nb):
        for i, c in enumerate(classes):
            n = PTS[tier] if c not in ('scalar', 'whole_numbers') else (150 if tier == 'quick' else 1500)
            out.append(dict(seed=int(seed) * 7919 + 101 * k + i, cls=c, n=n,
                            cost=n if c != 'scalar' else 20 * n))
    return out


def ulps(a, b, scale=None):
    a = np.asarray(a, float)
    b = np.asarray(b, float)
    s = np.maximum(np.abs(a), np.abs(b)) if scale is None else scale
    s = np.where(s == 0, 1.0, s)
    d = np.abs(a - b) / (EPS * s)
    return np.where(np.isnan(d), np.inf, d)          # a NaN never passes a comparison silently


def poison_pass(lat, lon, alt, bump):
    """Call history: every function is first called on points of this case (single and stacked) and the arrays it hands back are
    overwritten by the caller; everything below then judges the calls that follow.  A function that hands out an array it keeps
    (memo of the last / of frequent arguments) answers the later calls with the caller's scribbles."""
    from pyins import earth, transform
    for sl in (slice(0, 1), slice(0, min(len(lat), 64))):
        la, lo, al = lat[sl], lon[sl], alt[sl]
        forms = [(la, lo, al)] if sl.stop > 1 else [(la, lo, al), (float(la[0]), float(lo[0]), float(al[0]))]
        for a, b, c in forms:
            L = np.column_stack([a, b, c]) if np.ndim(a) else np.array([a, b, c])
            Lp = L.copy()
            Lp[..., 0] = np.clip(Lp[..., 0], -89.0, 89.0)      # a metre displacement has no longitude image at the poles themselves
            res = [earth.principal_radii(a, c), earth.gravity(a, c), earth.gravity_n(a, c), earth.gravitation_ecef(L), earth.curvature_matrix(a, c),
                   earth.rate_n(a), transform.lla_to_ecef(L), transform.mat_en_from_ll(a, b), transform.lla_to_ned(L, L if L.ndim == 1 else L[0]),
                   transform.perturb_lla(Lp, np.ones_like(L)), transform.compute_lla_difference(L, L)]
            res.append(transform.ecef_to_lla(np.array(res[6], dtype=float)))
            for r in res:
                for x in (r if isinstance(r, tuple) else (r,)):
                    if isinstance(x, np.ndarray) and x.flags.writeable and x.size:
                        x[...] = 12345.678
                        bump('returned_arrays_overwritten')


def run_whole_numbers(case, lat, lon, alt, out, obs, bump, fail):
    """Whole-degree / whole-metre points handed over as integers (int64 arrays, lists of Python ints, single int triples): the same
    numbers as floats must give the same geometry, and the ECEF <-> geodetic round trip must close on them as on any other point."""
    from pyins import earth, transform
    rng = np.random.Generator(np.random.PCG64(case['seed'] + 5))
    lat, lon, alt = np.clip(np.rint(lat), -89, 89), np.rint(lon), np.rint(alt)       # (metre displacements have no longitude image at the poles)
    lla = np.column_stack([lat, lon, alt])
    ecef = np.rint(transform.lla_to_ecef(np.column_stack([lat + rng.uniform(-0.4, 0.4, len(lat)), lon + rng.uniform(-0.4, 0.4, len(lat)), alt])))
    dr = np.rint(rng.standard_normal(lla.shape) * 50)
    lla2 = lla + np.rint(rng.standard_normal(lla.shape))
    lla2[:, 0] = np.clip(lla2[:, 0], -90, 90)
    I = lambda a: np.asarray(a).astype(np.int64)        # noqa: E731
    calls = [('principal_radii', earth.principal_radii, (lat, alt)), ('gravity', earth.gravity, (lat, alt)), ('gravity_n', earth.gravity_n, (lat, alt)),
             ('gravitation_ecef', earth.gravitation_ecef, (lla,)), ('curvature_matrix', earth.curvature_matrix, (lat, alt)), ('rate_n', earth.rate_n, (lat,)),
             ('lla_to_ecef', transform.lla_to_ecef, (lla,)), ('ecef_to_lla', transform.ecef_to_lla, (ecef,)), ('lla_to_ned', transform.lla_to_ned, (lla, lla[0])),
             ('perturb_lla', transform.perturb_lla, (lla, dr)), ('compute_lla_difference', transform.compute_lla_difference, (lla, lla2)),
             ('mat_en_from_ll', transform.mat_en_from_ll, (lat, lon))]
    for name, f, args in calls:
        ref = f(*[np.array(a, dtype=float) for a in args])
        forms = {'int64 array': [I(a) for a in args], 'list of ints': [I(a).tolist() for a in args],
                 'single int row': [I(a)[3].tolist() if name != 'lla_to_ned' or k == 0 else I(a).tolist() for k, a in enumerate(args)]}
        for form, fa in forms.items():
            try:
                got = f(*fa)
            except Exception as e:
                fail('integer_form', f'{name}: {form} raised {type(e).__name__}: {e}')
                continue
            bump('integer_forms_compared')
            r = ref
            if form == 'single int row':
                r = tuple(x[3] for x in ref) if isinstance(ref, tuple) else ref[3]
                if name == 'lla_to_ned':
                    r = f(np.array(args[0][3], dtype=float), np.array(args[1], dtype=float))
            ga = np.hstack([np.ravel(x) for x in (got if isinstance(got, tuple) else (got,))]).astype(float)
            ra = np.hstack([np.ravel(x) for x in (r if isinstance(r, tuple) else (r,))]).astype(float)
            if ga.shape != ra.shape or (np.abs(ga - ra) > 8 * EPS * np.maximum(np.abs(ra), np.abs(ra).max() * 1e-3 + 1e-300)).any():
                bad = int(np.argmax(np.abs(ga - ra))) if ga.shape == ra.shape else -1
                fail('integer_form', f'{name}: whole numbers passed as {form} give {ga[bad] if bad >= 0 else ga.shape} where the same numbers as floats give '
                     f'{ra[bad] if bad >= 0 else ra.shape}')
    # round trip from whole-metre ECEF points
    back = transform.lla_to_ecef(transform.ecef_to_lla(I(ecef)))
    bump('roundtrip_ecef', len(ecef))
    e = np.abs(back - ecef).max()
    if e > 1e-6:
        fail('roundtrip_ecef', f'whole-metre ECEF points (integer-typed) do not survive ecef_to_lla -> lla_to_ecef: {e:.3e} m')
    return dict(violations=out, obs=obs, nontrivial=True, evals=len(lat), nontrivial_count=len(lat), sample=dict(cls='whole_numbers', n=len(lat)))


def run_case(case):
    from pyins import earth, transform, _numba_integrate
    out = []
    obs = {}

    def bump(k, n=1):
        obs[k] = obs.get(k, 0) + int(n)

    def fail(kind, msg, **d):
        if len(out) < 20:
            out.append(vio(kind, msg, **d))

    lat, lon, alt = points(case)
    n = len(lat)
    lla = np.column_stack([lat, lon, alt])
    poison_pass(lat, lon, alt, bump)

    if case['cls'] == 'whole_numbers':
        return run_whole_numbers(case, lat, lon, alt, out, obs, bump, fail)

    # ---- metre displacements ALONG THE MERIDIAN for points within metres of a pole, also carrying the point over it: the ECEF
    # displacement must still be the NED frame of the starting point applied to d (to second order), whatever latitude label comes back
    prng = np.random.Generator(np.random.PCG64(case['seed'] + 23))
    k_ = 40
    dist = 10 ** prng.uniform(0, 2.5, k_)                                    # 1 .. 300 m from the pole
    sgn = prng.choice([-1.0, 1.0], k_)
    lla_p = np.column_stack([sgn * (90.0 - np.rad2deg(dist / 6.3568e6)), prng.uniform(-180, 180, k_), prng.uniform(-500, 9000, k_)])
    d_p = np.column_stack([sgn * dist * prng.uniform(-0.9, 3.0, k_), np.zeros(k_), prng.uniform(-5, 5, k_)])      # towards (and past) or away from the pole
    got_v = transform.perturb_lla(lla_p, d_p)
    for i_ in range(k_):
        got = [got_v[i_], transform.perturb_lla(lla_p[i_], d_p[i_])][i_ % 2]
        de = transform.lla_to_ecef(got) - transform.lla_to_ecef(lla_p[i_])
        exp = transform.mat_en_from_ll(lla_p[i_, 0], lla_p[i_, 1]) @ d_p[i_]
        bump('near_pole_perturbations')
        bnd = 4 * np.linalg.norm(d_p[i_]) ** 2 / 6.3e6 + 1e-6
        if not np.abs(de - exp).max() <= bnd:
            fail('perturb_geometry', f'perturb_lla({lla_p[i_].tolist()}, {d_p[i_].tolist()}) ({"over" if abs(d_p[i_, 0]) > dist[i_] and np.sign(d_p[i_, 0]) == sgn[i_] else "near"} the pole, '
                 f'{"single" if i_ % 2 else "stacked"} call) moves the point by {de.tolist()} in ECEF, the NED frame of the starting point applied to d is {exp.tolist()} '
                 f'(mismatch {np.abs(de - exp).max():.3e} m, bound {bnd:.1e})')
            break

    if case['cls'] == 'scalar':
        # scalar vs vectorised forms of every function (<= 4 ulp of the natural scale)
        r_v = transform.lla_to_ecef(lla)
        g_v = earth.gravity(lat, alt)
        rad_v = earth.principal_radii(lat, alt)
        gn_v = earth.gravity_n(lat, alt)
        ge_v = earth.gravitation_ecef(lla)
        cm_v = earth.curvature_matrix(lat, alt)
        rn_v = earth.rate_n(lat)
        me_v = transform.mat_en_from_ll(lat, lon)
        back_v = transform.ecef_to_lla(r_v)
        for i in range(n):
            la, lo, al = float(lat[i]), float(lon[i]), float(alt[i])
            checks = [
                ('lla_to_ecef', transform.lla_to_ecef([la, lo, al]), r_v[i], W.A + abs(al)),
                ('gravity', earth.gravity(la, al), g_v[i], 10.0),
                ('gravity_n', earth.gravity_n(la, al), gn_v[i], 10.0),
                ('gravitation_ecef', earth.gravitation_ecef([la, lo, al]), ge_v[i], 10.0),
                ('curvature_matrix', earth.curvature_matrix(la, al), cm_v[i],
                 np.abs(cm_v[i]).max()),
                ('rate_n', earth.rate_n(la), rn_v[i], W.RATE),
                ('mat_en_from_ll', transform.mat_en_from_ll(la, lo), me_v[i], 1.0),
                ('ecef_to_lla', transform.ecef_to_lla(r_v[i]), back_v[i],
                 np.array([90.0, 180.0, W.A + abs(al)])),
            ]
            rs = earth.principal_radii(la, al)
            for k in range(3):
                checks.append((f'principal_radii[{k}]', rs[k], rad_v[k][i], W.A + abs(al)))
            for name, s_val, v_val, scale in checks:
                s_val = np.asarray(s_val, float)
                if s_val.shape != np.asarray(v_val).shape:
                    fail('scalar_shape', f'{name}: scalar call returned shape {s_val.shape}, '
                         f'row of stacked call has {np.asarray(v_val).shape}')
                    continue
                u = ulps(s_val, v_val, scale).max()
                obs['max_scalar_vector_ulp'] = max(obs.get('max_scalar_vector_ulp', 0), float(u))
                if u > 8:
                    fail('scalar_vs_vector', f'{name}: scalar and stacked calls differ by {u:.1f} ulp '
                         f'at lat={la} lon={lo} alt={al}')
            bump('scalar_vs_vector')
            # compiled gravity copy
            gc = _numba_integrate.gravity(la, al)
            u = ulps(gc, g_v[i], 10.0).max()
            bump('compiled_gravity')
            if u > 8:
                fail('compiled_gravity', f'compiled gravity differs from earth.gravity by {u:.1f} ulp '
                     f'at lat={la} alt={al}')
        return dict(violations=out, obs=obs, nontrivial=True, evals=n, nontrivial_count=n,
                    sample=dict(cls='scalar', n=n, first_point=lla[0].tolist()))

    # ---- 1. ECEF against the closed form ------------------------------------------------
    r = transform.lla_to_ecef(lla)
    r_ref = W.ecef(lat, lon, alt)
    tol = 64 * EPS * (W.A + np.abs(alt))
    e = np.abs(r - r_ref).max(axis=1)
    bump('ecef_closed_form', n)
    obs['max_ecef_err_m'] = float(e.max())
    bad = np.nonzero(e > tol)[0]
    if len(bad):
        i = bad[0]
        fail('ecef_closed_form', f'lla_to_ecef differs from closed form by {e[i]:.3e} m at {lla[i].tolist()}')
    for i in range(0, n, max(1, n // 12)):
        rm = W.ecef_mp(lat[i], lon[i], alt[i])
        bump('mp_points')
        if np.abs(r[i] - rm).max() > 16 * EPS * (W.A + abs(alt[i])):
            fail('ecef_mpmath', f'lla_to_ecef differs from 40-digit closed form by '
                 f'{np.abs(r[i] - rm).max():.3e} m at {lla[i].tolist()}')

    # ---- 2. round trips --------------------------------------------------------------------
    back = transform.ecef_to_lla(r)
    r2 = transform.lla_to_ecef(back)
    e = np.linalg.norm(r2 - r, axis=1)
    bump('roundtrip_ecef', n)
    obs['max_roundtrip_ecef_m'] = float(e.max())
    rt_tol = 1e-6 * np.maximum(1.0, (W.A + np.abs(alt)) / 6.4e6)
    bad = np.nonzero(e > rt_tol)[0]
    if len(bad):
        i = bad[0]
        fail('roundtrip_ecef', f'ecef->lla->ecef off by {e[i]:.3e} m at {lla[i].tolist()}')
    rn, re, rp = W.radii(lat, alt)
    dlat = np.abs(back[:, 0] - lat) * W.D2R * rn
    dalt = np.abs(back[:, 2] - alt)
    dlon = np.abs(((back[:, 1] - lon + 180) % 360) - 180) * W.D2R * rp   # metres along the parallel
    bump('roundtrip_lla', n)
    obs['max_roundtrip_lla_m'] = float(max(dlat.max(), dalt.max(), dlon.max()))
    for name, d in (('lat', dlat), ('alt', dalt), ('lon', dlon)):
        bad = np.nonzero(d > rt_tol)[0]
        if len(bad):
            i = bad[0]
            fail('roundtrip_lla', f'lla->ecef->lla: {name} off by {d[i]:.3e} m at {lla[i].tolist()} '
                 f'(got {back[i].tolist()})')
    own = W.geodetic_newton(r)
    d = np.abs(own[:, 0] - back[:, 0]) * W.D2R * rn
    if (d > rt_tol).any():
        i = int(np.argmax(d))
        fail('ecef_to_lla_vs_newton', f'latitude differs from own iteration by {d[i]:.3e} m at {lla[i].tolist()}')

    # ---- 3. NED frame: orthonormal, right-handed, axes along the partials of ECEF position --
    M = transform.mat_en_from_ll(lat, lon)
    I = np.einsum('nij,nik->njk', M, M)
    eo = np.abs(I - np.eye(3)).max()
    det = np.linalg.det(M)
    bump('frame_partials', n)
    if eo > 16 * EPS:
        fail('frame_orthonormal', f'M^T M - I = {eo:.3e}')
    if np.abs(det - 1).max() > 16 * EPS:
        fail('frame_det', f'det = {det[np.argmax(np.abs(det - 1))]}')
    ax = W.ned_axes(lat, lon)
    ea = np.abs(M - ax).max(axis=(1, 2))
    if (ea > 16 * EPS).any():
        i = int(np.argmax(ea))
        fail('frame_axes', f'mat_en_from_ll differs from closed-form N/E/D axes by {ea[i]:.3e} at '
             f'lat={lat[i]} lon={lon[i]}')
    # partials of the REAL lla_to_ecef by Richardson central differences
    inner = np.abs(lat) < 89.0
    if inner.any():
        li = lla[inner]
        Mi = M[inner]
        radii_lib = earth.principal_radii(li[:, 0], li[:, 2])
        for col, (k, h, sign, length) in enumerate(((0, 1e-3, 1.0, radii_lib[0]),
                                                    (1, 1e-3, 1.0, radii_lib[2]),
                                                    (2, 10.0, -1.0, np.ones(len(li))))):
            def dd(hh):
                p, m = li.copy(), li.copy()
                p[:, k] += hh
                m[:, k] -= hh
                return (transform.lla_to_ecef(p) - transform.lla_to_ecef(m)) / (2 * hh)
            deriv = (4 * dd(h / 2) - dd(h)) / 3
            if k < 2:
                deriv = deriv / W.D2R      # per radian
            L = np.linalg.norm(deriv, axis=1)
            unit = sign * deriv / L[:, None]
            ed = np.abs(unit - Mi[:, :, col]).max(axis=1)
            el = np.abs(L - length) / length
            obs['max_partial_dir_err'] = max(obs.get('max_partial_dir_err', 0), float(ed.max()))
            obs['max_partial_len_relerr'] = max(obs.get('max_partial_len_relerr', 0), float(el.max()))
            if (ed > 2e-7).any():
                i = int(np.argmax(ed))
                fail('frame_vs_partials', f'axis {col} of mat_en differs from the normalised partial of '
                     f'lla_to_ecef by {ed[i]:.3e} at {li[i].tolist()}')
            if (el > 2e-7).any():
                i = int(np.argmax(el))
                fail('radii_vs_partials', f'|d r/d coord {k}| = {L[i]:.6f} but principal radius says '
                     f'{length[i]:.6f} at {li[i].tolist()}')
    # radii closed form
    rl = earth.principal_radii(lat, alt)
    # pyins forms cos(lat) as sqrt(1 - sin^2), whose absolute error near the poles is
    # eps/cos (conditioning of the formula, at most sqrt(2 eps)); allowed for the parallel radius
    coslat = np.cos(lat * W.D2R)
    cos_err = 4 * np.minimum(EPS / np.maximum(np.abs(coslat), 1e-300), 1.5e-8) + 4 * EPS
    for k, (a_, b_) in enumerate(zip(rl, (rn, re, rp))):
        u = np.abs(a_ - b_) / (W.A + np.abs(alt))
        if (u > 64 * EPS + (cos_err if k == 2 else 0)).any():
            i = int(np.argmax(u))
            fail('principal_radii', f'radius {k} differs from closed form by {u[i]:.3e} rel at {lla[i].tolist()}')

    # ---- 4. first-order agreement of perturb / difference / local NED (ladder) -------------
    mid = (np.abs(lat) < 88.0) & (alt < 2e5)
    if mid.sum() >= 2:
        lm = lla[mid]
        rng = np.random.Generator(np.random.PCG64(case['seed'] + 5))
        u = rng.standard_normal((len(lm), 3))
        u /= np.linalg.norm(u, axis=1)[:, None]
        tanl = np.tan(np.abs(lm[:, 0]) * W.D2R)
        Rm = 6.3e6
        prev = None
        for dsz in (1000.0, 100.0, 10.0, 1.0):
            dr = u * dsz
            p = transform.perturb_lla(lm, dr)
            ned = np.array([transform.lla_to_ned(np.vstack([lm[i], p[i]]))[1] for i in range(0, len(lm), max(1, len(lm) // 40))])
            idx = np.arange(0, len(lm), max(1, len(lm) // 40))
            bound = 4 * dsz ** 2 * (1 + tanl) / Rm + 1e-7
            res1 = np.linalg.norm(ned - dr[idx], axis=1)
            diff = transform.compute_lla_difference(p, lm)
            res2 = np.linalg.norm(diff - dr, axis=1)
            ned_o = transform.lla_to_ned(p[idx], lm[idx[0]])   # common origin form
            bump('first_order_ladder', len(lm))
            obs[f'max_ned_residual_{int(dsz)}m'] = float(res1.max())
            if (res1 > bound[idx]).any():
                i = int(np.argmax(res1 / bound[idx]))
                fail('ned_vs_perturb', f'lla_to_ned(perturb_lla(x, d)) - d = {res1[i]:.3e} m for |d|={dsz} m '
                     f'(bound {bound[idx][i]:.3e}) at {lm[idx[i]].tolist()} d={dr[idx[i]].tolist()}')
            if (res2 > bound).any():
                i = int(np.argmax(res2 / bound))
                fail('difference_vs_perturb', f'compute_lla_difference(perturb_lla(x, d), x) - d = {res2[i]:.3e} m '
                     f'for |d|={dsz} m (bound {bound[i]:.3e}) at {lm[i].tolist()} d={dr[i].tolist()}')
            # geometric meaning: ECEF displacement rotated to NED equals d to first order
            de = transform.lla_to_ecef(p) - transform.lla_to_ecef(lm)
            dn = np.einsum('nji,nj->ni', transform.mat_en_from_ll(lm[:, 0], lm[:, 1]), de)
            res3 = np.linalg.norm(dn - dr, axis=1)
            if (res3 > bound).any():
                i = int(np.argmax(res3 / bound))
                fail('perturb_geometry', f'ECEF displacement of perturb_lla differs from d by {res3[i]:.3e} m '
                     f'for |d|={dsz} (bound {bound[i]:.3e}) at {lm[i].tolist()}')

        # ---- 5. curvature matrix = rotation of the NED frame per unit displacement ---------
        Fc = earth.curvature_matrix(lm[:, 0], lm[:, 2])
        M0 = transform.mat_en_from_ll(lm[:, 0], lm[:, 1])
        from scipy.spatial.transform import Rotation
        for dsz in (10000.0, 1000.0, 100.0):
            dr = u * dsz
            p = transform.perturb_lla(lm, dr)
            M1 = transform.mat_en_from_ll(p[:, 0], p[:, 1])
            rel = np.einsum('nji,njk->nik', M0, M1)       # M0^T M1 = exp([theta]x)
            theta = Rotation.from_matrix(rel).as_rotvec()
            pred = np.einsum('nij,nj->ni', Fc, dr)
            res = np.linalg.norm(theta - pred, axis=1)
            bound = 4 * (dsz / Rm) ** 2 * (1 + tanl) ** 2 + 1e-13
            bump('curvature_ladder', len(lm))
            obs[f'max_curv_residual_{int(dsz)}m'] = float(res.max())
            if (res > bound).any():
                i = int(np.argmax(res / bound))
                fail('curvature_vs_frame_rotation', f'frame rotation {theta[i].tolist()} vs F d {pred[i].tolist()} '
                     f'residual {res[i]:.3e} rad (bound {bound[i]:.3e}) for |d|={dsz} m at {lm[i].tolist()}')
        # transport-rate closed form
        v = rng.uniform(-300, 300, (len(lm), 3))
        tr = np.einsum('nij,nj->ni', Fc, v)
        tr_ref = W.transport_rate(lm[:, 0], lm[:, 2], v)
        e = np.abs(tr - tr_ref).max(axis=1) / (np.abs(tr_ref).max(axis=1) + 1e-30)
        if (e > 1e-12).any():
            i = int(np.argmax(e))
            fail('transport_rate', f'curvature_matrix @ v differs from closed-form transport rate by {e[i]:.3e} rel '
                 f'at {lm[i].tolist()}')

    # ---- 6. gravity field in all representations -------------------------------------------
    gsel = (alt >= -1000) & (alt <= 100000)
    if gsel.sum() >= 2:
        la, lo, al = lat[gsel], lon[gsel], alt[gsel]
        g = earth.gravity(la, al)
        gref = W.gravity(la, al)
        bump('gravity_identities', len(la))
        u = ulps(g, gref, 10.0)
        if (u > 16).any():
            i = int(np.argmax(u))
            fail('gravity_closed_form', f'gravity differs from Somigliana by {u[i]:.1f} ulp at lat={la[i]} alt={al[i]}')
        gn = earth.gravity_n(la, al)
        if not (np.array_equal(gn[:, 2], g) and np.all(gn[:, :2] == 0)):
            fail('gravity_n', 'gravity_n is not [0, 0, gravity]')
        G = earth.gravitation_ecef(np.column_stack([la, lo, al]))
        Gref = W.gravitation_ecef(la, lo, al)
        e = np.abs(G - Gref).max(axis=1)
        obs['max_gravitation_err'] = float(e.max())
        gtol = 1e-11 + W.RATE ** 2 * (W.A + np.abs(al)) * cos_err[gsel]
        if (e > gtol).any():
            i = int(np.argmax(e))
            fail('gravitation_ecef', f'gravitation_ecef differs from gravity - centrifugal by {e[i]:.3e} m/s^2 at '
                 f'{[la[i], lo[i], al[i]]}')
        # re-derived through the real functions: G = C_en g_n + Omega x (Omega x r)
        Mg = transform.mat_en_from_ll(la, lo)
        rg = transform.lla_to_ecef(np.column_stack([la, lo, al]))
        om = np.array([0, 0, earth.RATE])
        G2 = np.einsum('nij,nj->ni', Mg, gn) + np.cross(om, np.cross(om, rg))
        e = np.abs(G - G2).max(axis=1)
        if (e > gtol).any():
            i = int(np.argmax(e))
            fail('gravitation_identity', f'gravitation_ecef != C_en g_n + Ox(Oxr): {e[i]:.3e} at {[la[i], lo[i], al[i]]}')
        rt = earth.rate_n(la)
        e1 = np.abs(rt - W.rate_n(la)).max()
        e2 = np.abs(rt - np.einsum('nji,j->ni', Mg, om)).max()
        if e1 > 16 * EPS * W.RATE or e2 > 16 * EPS * W.RATE:
            fail('rate_n', f'rate_n differs from C_en^T [0,0,Omega]: {e1:.3e} {e2:.3e}')
        # compiled copy on a sub-sample
        for i in range(0, len(la), max(1, len(la) // 50)):
            gc = _numba_integrate.gravity(float(la[i]), float(al[i]))
            bump('compiled_gravity')
            if ulps(gc, g[i], 10.0).max() > 8:
                fail('compiled_gravity', f'compiled gravity {gc!r} vs earth.gravity {g[i]!r} at lat={la[i]} alt={al[i]}')
        # parity in latitude
        bump('parity', len(la))
        if ulps(earth.gravity(-la, al), g, 10.0).max() > 4:
            fail('parity_gravity', 'gravity not even in latitude')
        ra, rb = earth.principal_radii(la, al), earth.principal_radii(-la, al)
        for k in range(3):
            if ulps(ra[k], rb[k]).max() > 4:
                fail('parity_radii', f'principal radius {k} not even in latitude')
        r_m = earth.rate_n(-la)
        if ulps(r_m[:, 2], -rt[:, 2], W.RATE).max() > 4 or ulps(r_m[:, 0], rt[:, 0], W.RATE).max() > 4:
            fail('parity_rate', 'rate_n: north component must be even, down component odd in latitude')
        Gm = earth.gravitation_ecef(np.column_stack([-la, lo, al]))
        if (np.abs(Gm[:, 2] + G[:, 2]) > 1e-13 * 10).any() or (np.abs(Gm[:, :2] - G[:, :2]) > 1e-13 * 10).any():
            fail('parity_gravitation', 'gravitation_ecef: z must be odd, x/y even in latitude')
        # north component of centrifugal term (odd in latitude), via the real functions
        Gn = np.einsum('nji,nj->ni', Mg, G)
        Gn_m = np.einsum('nji,nj->ni', transform.mat_en_from_ll(-la, lo), Gm)
        if (np.abs(Gn[:, 0] + Gn_m[:, 0]) > 1e-12).any() or (np.abs(Gn[:, 2] - Gn_m[:, 2]) > 1e-12).any():
            fail('parity_gravitation_ned', 'NED gravitation: north component must be odd, down even')
        cf = earth.curvature_matrix(la, al)
        cm = earth.curvature_matrix(-la, al)
        if (ulps(cm[:, 2, 1], -cf[:, 2, 1], 1e-6).max() > 64 or ulps(cm[:, 0, 1], cf[:, 0, 1], 1e-6).max() > 4
                or ulps(cm[:, 1, 0], cf[:, 1, 0], 1e-6).max() > 4):
            fail('parity_curvature', 'curvature matrix: [2,1] must be odd in latitude, [0,1],[1,0] even')

    special = np.isin(lat, [0.0, 90.0, -90.0, 55.0])
    nontrivial = bool((~special).sum() >= 2)
    return dict(violations=out, obs=obs, nontrivial=nontrivial, evals=n,
                nontrivial_count=int(len(np.unique(lla[~special], axis=0))),
                sample=dict(cls=case['cls'], n=n, first_point=lla[0].tolist(),
                            maxima={k: v for k, v in obs.items() if k.startswith('max_')}))
