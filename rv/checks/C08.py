"""C08 - discretised process matrices are the exact transition and noise integral.

Monitor: boundary contract on the real `pyins.kalman.compute_process_matrices`
(every binding): postcondition against 50-digit mpmath expm / textbook Van Loan
(and Gauss-Legendre quadrature on a subset), symmetry, PSD, zero step, purity;
the driver also calls the monitored function on a random partition of dt and
checks the composition law.
"""
import numpy as np

from rv.core import vio
from rv.instrument import patch
from rv.oracles import hp_linalg as hp

ID = 'C08'
RULE = ('seeded random (F, Q, dt): n 1..24 (mpmath subset n<=12 in quick), F stable / unstable / '
        'nilpotent / zero / random with |F|dt up to ~20, PSD Q of rank 0..n and scale 1e-6..1e3, '
        'dt in [0,10] incl. 0 and tiny; class integer: whole-number F / Q / dt typed as integers in any mix; after each case the same F, Q arrays updated in place between three further calls; partitions of dt into 1..8 sub-steps; non-trivial = not '
        '(n<=2 integrator or the single random 15x15 at one dt); distinct = generator parameters'
        ' Round 4: Q magnitudes 1e-26..1e-9 (navigation-grade densities) and 1e4..1e12; at the end of every case the caller overwrites every matrix it was handed back (shared constant matrices of a zero-step / zero-noise shortcut reach the next call).'
        ' Round 5: class exchange - generators with zero row sums (marginally stable, singular, weakly diagonally dominant) at steps of 1..6 time constants.')
ASSUMPTIONS = ['mpmath Taylor expm at 50 digits is exact relative to float64',
               'rounding bound kappa = exp(|F|_2 dt) * (1+|F|dt)  (conditioning of the block exponential)']
REQUIRED_OBS = ['column_major_inputs', 'systems_in_mixed_units', 'scale_invariance_checked', 'returned_arrays_overwritten', 'float_route_compared', 'in_place_updates_between_calls', 'integer_typed_inputs', 'post_checked', 'mp_compared', 'composition_checked', 'zero_step_checked', 'ambient_calls_checked']
REQUIRED_CLASSES = {'all': ['stable', 'unstable', 'nilpotent', 'triangular', 'diagonal', 'zero', 'random', 'singularQ', 'dt0', 'integer', 'exchange', 'ambient']}
EPS = np.finfo(float).eps
C_PHI = 5e4   # scipy 1.18 expm is only ~1e-12 relative on small blocks (measured: 620 eps)
C_Q = 5e4

PENDING = []
LAST = {}


def _pre(args, kwargs):
    F, Q, dt = args
    return np.array(F, dtype=float), np.array(Q, dtype=float), float(dt)


def bounds(F, Q, dt):
    n = len(F)
    nf = np.linalg.norm(F, 2) * dt
    kap = np.exp(nf) * (1 + nf) * max(n, 1)
    # Qd is extracted from expm([[F,Q],[0,-F']]dt) times Phi': conditioning ~ exp(2|F|dt)
    bphi = C_PHI * EPS * kap
    bq = C_Q * EPS * np.exp(2 * nf) * (1 + nf) * max(n, 1) * np.linalg.norm(Q, 2) * dt
    return bphi, bq


def check_post(F, Q, dt, result, obs, use_mp):
    out = []
    Phi, Qd = result
    n = len(F)
    obs['post_checked'] = obs.get('post_checked', 0) + 1
    if Phi.shape != (n, n) or Qd.shape != (n, n):
        return [vio('shape', f'{Phi.shape} {Qd.shape}')]
    if not (np.isfinite(Phi).all() and np.isfinite(Qd).all()):
        return [vio('nonfinite', 'non-finite output')]
    bphi, bq = bounds(F, Q, dt)
    if dt == 0:
        obs['zero_step_checked'] = obs.get('zero_step_checked', 0) + 1
        if not np.array_equal(Phi, np.eye(n)):
            out.append(vio('zero_step_phi', 'Phi != I for dt = 0'))
        if np.any(Qd != 0):
            out.append(vio('zero_step_q', 'Qd != 0 for dt = 0'))
    asym = np.abs(Qd - Qd.T).max()
    if asym > bq:
        out.append(vio('q_symmetry', f'asymmetry {asym:.3e} > {bq:.3e}'))
    me = np.linalg.eigvalsh(0.5 * (Qd + Qd.T)).min() if n else 0.0
    if me < -bq * n:
        out.append(vio('q_psd', f'min eig(Qd) = {me:.3e} < -{bq * n:.3e}'))
    if use_mp:
        Pr, Qr = hp.process_matrices(F, Q, dt)
        obs['mp_compared'] = obs.get('mp_compared', 0) + 1
        eP = np.abs(Phi - Pr).max()
        eQ = np.abs(Qd - Qr).max()
        obs['max_phi_ratio'] = max(obs.get('max_phi_ratio', 0), eP / bphi)
        if bq > 0:
            obs['max_q_ratio'] = max(obs.get('max_q_ratio', 0), eQ / bq)
        if eP > bphi:
            out.append(vio('transition', f'|Phi - expm(F dt)| = {eP:.3e} > {bphi:.3e}'))
        if eQ > bq:
            out.append(vio('noise_integral', f'|Qd - int| = {eQ:.3e} > {bq:.3e}'))
        LAST['ref'] = (Pr, Qr)
    elif n:
        # float route: the same Van Loan construction evaluated here (scipy expm) - not an accuracy oracle, but it does not share any
        # state with the function under test, so an answer that belongs to other inputs (memo, stale reference) shows at once
        from scipy.linalg import expm
        Hm = np.zeros((2 * n, 2 * n))
        # (Q normalised to unit size: the exponential of a matrix whose blocks differ by 20 decades loses the small block's relative accuracy)
        qs = float(np.abs(Q).max()) or 1.0
        Hm[:n, :n], Hm[:n, n:], Hm[n:, n:] = F, Q / qs, -F.T
        E = expm(Hm * dt)
        Pr, Qr = E[:n, :n], E[:n, n:] @ E[:n, :n].T * qs
        obs['float_route_compared'] = obs.get('float_route_compared', 0) + 1
        eP = np.abs(Phi - Pr).max()
        eQ = np.abs(Qd - Qr).max()
        if eP > bphi:
            out.append(vio('transition', f'|Phi - expm(F dt)| = {eP:.3e} > {bphi:.3e} (float route)'))
        if eQ > bq and eQ > 0:
            out.append(vio('noise_integral', f'|Qd - int| = {eQ:.3e} > {bq:.3e} (float route)'))
    return out


def _post(ctx, args, kwargs, result):
    obs = LAST.setdefault('obs', {})
    F0, Q0, dt = ctx
    if not (np.array_equal(F0, args[0]) and np.array_equal(Q0, args[1])):
        PENDING.append(vio('input_modified', 'F or Q changed by compute_process_matrices'))
    use_mp = LAST.get('use_mp', False)
    if LAST.get('ambient'):
        use_mp = len(F0) <= 9 and obs.get('mp_compared', 0) < 12      # mpmath on the small (no sensor states) systems only
    PENDING.extend(check_post(F0, Q0, dt, result, obs, use_mp))


def _pre_assembly(args, kwargs):
    if LAST.get('ambient') and len(LAST.setdefault('assembly_calls', [])) < 40:
        LAST['assembly_calls'].append(tuple(args))
    return None


def setup():
    from pyins import kalman, filters
    patch.import_all()
    patch.wrap(kalman, 'compute_process_matrices', pre=_pre, post=_post)
    if hasattr(filters, '_compute_error_propagation_matrices'):
        patch.wrap(filters, '_compute_error_propagation_matrices', pre=_pre_assembly, counter='assembly_calls')


def gen(case):
    rng = np.random.Generator(np.random.PCG64(case['seed']))
    cls = case['cls']
    nmax = case.get('nmax', 24)
    n = int(rng.integers(1, nmax + 1))
    if cls == 'integer':
        return gen_integer(rng)
    if cls == 'exchange':
        n = int(rng.integers(2, 9))
        W_ = rng.uniform(0, 1, (n, n)) * (rng.random((n, n)) < 0.6)
        np.fill_diagonal(W_, 0.0)
        W_[np.arange(n), (np.arange(n) + 1) % n] += 0.1          # every row exchanges with somebody: negative diagonal everywhere
        F = W_ - np.diag(W_.sum(axis=1))
        if rng.random() < 0.5:
            F = F.T.copy()
        G = rng.standard_normal((n, int(rng.integers(1, n + 1))))
        Q = G @ G.T * 10 ** rng.uniform(-3, 1)
        dt = float(rng.uniform(1.0, 6.0) / np.abs(np.diag(F)).min())
        dt = min(dt, 20.0 / np.linalg.norm(F, 2))
        k = int(rng.integers(2, 9))
        w = rng.uniform(0.05, 1, k)
        return F, Q, dt, (w / w.sum() * dt).tolist()
    kind = cls if cls in ('stable', 'unstable', 'nilpotent', 'triangular', 'diagonal', 'zero', 'random') else \
        str(rng.choice(['stable', 'unstable', 'nilpotent', 'triangular', 'diagonal', 'random']))
    if kind == 'zero':
        F = np.zeros((n, n))
    elif kind == 'nilpotent':
        F = np.triu(rng.standard_normal((n, n)), 1)
    elif kind == 'triangular':          # integrator chain driven by Gauss-Markov states: triangular but NOT nilpotent
        F = np.triu(rng.standard_normal((n, n)), 1) * (rng.random((n, n)) < 0.4)
        F[np.diag_indices(n)] = -rng.uniform(0, 2, n) * (rng.random(n) < 0.6)
        if rng.random() < 0.3:
            F = F.T.copy()
    elif kind == 'diagonal':            # independent Gauss-Markov processes
        F = np.diag(-rng.uniform(0, 3, n) * (rng.random(n) < 0.8))
    else:
        F = rng.standard_normal((n, n)) / np.sqrt(n)
        if kind == 'stable':
            F -= 1.5 * np.eye(n)
        if kind == 'unstable':
            F += 0.5 * np.eye(n)
    F *= 10 ** rng.uniform(-3, 0.3)
    r = int(rng.integers(0, n + 1))
    if cls == 'singularQ':
        r = int(rng.integers(0, max(1, n)))
    G = rng.standard_normal((n, r))
    Q = G @ G.T * 10 ** rng.uniform(-6, 3)
    if rng.random() < 0.25:
        # navigation-grade noise densities: every entry of Q far below 1e-8 (and a few far above 1): Qd is linear in Q, no magnitude is 'zero'
        Q = G @ G.T * 10 ** rng.uniform(-26, -9) if rng.random() < 0.8 else G @ G.T * 10 ** rng.uniform(4, 12)
    dt = float(rng.choice([rng.uniform(0, 10), 10 ** rng.uniform(-3, 1), 10 ** rng.uniform(-8, -3)]))
    if cls == 'dt0':
        dt = 0.0
    # keep |F| dt <= 20
    nf = np.linalg.norm(F, 2) * dt
    if nf > 20:
        F *= 20 / nf
    k = int(rng.integers(1, 9))
    w = rng.uniform(0.05, 1, k)
    parts = (w / w.sum() * dt).tolist()
    # Round 6: states in mixed units (row / column norms of F decades apart: an exact power-of-two similarity D^-1 F D, D Q D) and / or a
    # column-major array (A.T, a slice of a stack, the output of a LAPACK routine) - the layout in which scipy / LAPACK really work in place
    lrng = np.random.Generator(np.random.PCG64(case['seed'] + 99))
    if n > 1 and lrng.random() < 0.3:
        d_ = 2.0 ** lrng.integers(-6, 7, n)
        F = F * d_[None, :] / d_[:, None]
        Q = Q / d_[:, None] / d_[None, :]
        nf = np.linalg.norm(F, 2) * dt
        if nf > 20:
            dt = dt * 20 / nf
            parts = [p_ * 20 / nf for p_ in parts]
    if lrng.random() < 0.35:
        F = np.asfortranarray(F)
        Q = np.asfortranarray(Q)
    return F, Q, dt, parts


def gen_integer(rng):
    """Whole-number systems the way they are typed in by hand: integer-typed F (integrator chains, small random), integer or float
    Q, integer or float dt - any mix.  Same mathematics, other dtypes."""
    n = int(rng.integers(1, 7))
    if rng.random() < 0.6:
        F = np.triu(rng.integers(-1, 2, (n, n)), 1)
    else:
        F = rng.integers(-1, 2, (n, n)) - np.eye(n, dtype=int)
    G = rng.integers(-2, 3, (n, int(rng.integers(0, n + 1))))
    Q = G @ G.T
    dt = int(rng.integers(1, 4))
    mix = int(rng.integers(0, 4))
    if mix == 0:        # integer F and dt, fractional Q
        Q = Q * float(rng.choice([0.2, 0.5, 0.3, 1e-3]))
    elif mix == 1:      # everything integer
        pass
    elif mix == 2:      # float F, integer Q and dt
        F = F * 0.5
    else:               # integer F and Q, fractional dt
        dt = float(rng.choice([0.5, 1.5, 0.25]))
        Q = Q * 0.1
    if dt >= 2 and rng.random() < 0.7:
        parts = [1] * int(dt) if isinstance(dt, int) else [dt / 2, dt / 2]
        if rng.random() < 0.5 and isinstance(dt, int):
            parts = [float(x) for x in parts]
    else:
        parts = [dt / 2, dt / 4, dt / 4]
    return F, Q, dt, parts


def cases(seed, tier):
    classes = ['stable', 'unstable', 'nilpotent', 'triangular', 'diagonal', 'zero', 'random', 'singularQ', 'dt0', 'integer', 'exchange']
    out = []
    if tier == 'quick':
        for i in range(224):
            out.append(dict(seed=int(seed) * 1000003 + i, cls=classes[i % 11], mp=True, nmax=10, cost=3))
        for i in range(224, 1200):
            out.append(dict(seed=int(seed) * 1000003 + i, cls=classes[i % 11], mp=False, nmax=24, cost=1))
    else:
        for i in range(2100):
            out.append(dict(seed=int(seed) * 1000003 + i, cls=classes[i % 11], mp=True, nmax=24, cost=8))
        for i in range(2100, 30000):
            out.append(dict(seed=int(seed) * 1000003 + i, cls=classes[i % 11], mp=False, nmax=24, cost=1))
    # directed: the system on which the unnormalised Van Loan exponential lost the 4th digit of Qd (thorough seed 47; nilpotent n = 4, |F| dt = 4.6,
    # |Q| = 1.8e-19) - repaired in the repository, kept as a regression case in both tiers
    out.append(dict(seed=47009733, cls='nilpotent', mp=False, nmax=24, cost=1))
    # ambient: the contract stays on compute_process_matrices while the real filters run (the F, G q^2 G^T they assemble)
    na = 12 if tier == 'quick' else 200
    out += [dict(seed=int(seed) * 1000003 + 800000 + i, cls='ambient', cost=30) for i in range(na)]
    return out


def run_ambient(case):
    from pyins import filters, sim
    import pandas as pd
    from rv.workloads import schedules
    S = schedules.build(case['seed'])
    PENDING.clear()
    LAST.clear()
    LAST['ambient'] = True
    obs = LAST.setdefault('obs', {})
    err = pd.Series(S['init_err'], index=['north', 'east', 'down', 'VN', 'VE', 'VD', 'roll', 'pitch', 'heading'])
    try:
        if case['seed'] % 2 == 0:
            filters.run_feedback_filter(sim.perturb_pva(S['traj'].iloc[0], err), 5, 1, 0.5, 1.0, S['increments'], S['gyro_model'], S['accel_model'],
                                        measurements=S['measurements'], time_step=S['time_step'], with_altitude=S['with_altitude'])
        else:
            filters.run_feedforward_filter(S['traj'], S['traj'] * 1.0, 5, 1, 0.5, 1.0, S['gyro_model'], S['accel_model'], measurements=S['measurements'],
                                           increments=S['increments'], time_step=S['time_step'], with_altitude=S['with_altitude'])
    except Exception as e:
        return dict(violations=[vio('exception', f'ambient filter run raised {type(e).__name__}: {e}')], obs=obs)
    n_calls = obs.get('post_checked', 0)
    obs['ambient_calls_checked'] = n_calls
    out = [dict(v, message='[ambient, inside a real filter run] ' + v['message']) for v in PENDING[:5]]
    # the same composition law one level up, where the filters assemble F, G, q and hand them to the discretisation (second anchor of the
    # property): one step of the assembled system must equal two half steps, whatever sensor states and noises are enabled
    rec = LAST.get('assembly_calls', [])
    fn = getattr(filters, '_compute_error_propagation_matrices', None)
    if fn is not None and rec:
        LAST['ambient'] = False
        for args in rec[:6]:
            pva, gyro, accel, dt_, em_, gm_, am_ = args
            if not dt_ > 0:
                continue
            P1, Q1 = fn(pva, gyro, accel, dt_, em_, gm_, am_)
            Ph, Qh = fn(pva, gyro, accel, dt_ / 2, em_, gm_, am_)
            obs['assembly_composition_checked'] = obs.get('assembly_composition_checked', 0) + 1
            eP = np.abs(Ph @ Ph - P1).max()
            eQ = np.abs(Ph @ Qh @ Ph.T + Qh - Q1).max()
            sq = max(np.abs(Q1).max(), 1e-300)
            if eP > 1e-9 * max(1.0, np.abs(P1).max()) or eQ > 1e-9 * sq:
                out.append(vio('assembly_composition', f'[ambient] error propagation matrices of the assembled system (states {len(P1)}, step {dt_:.4g} s) do not '
                               f'compose over two half steps: |Phi_h Phi_h - Phi| = {eP:.3e}, |Phi_h Q_h Phi_h^T + Q_h - Qd| = {eQ:.3e} (|Qd| = {sq:.3e}); '
                               f'gyro noises {gm_.n_noises}+{gm_.n_output_noises}, accel noises {am_.n_noises}+{am_.n_output_noises}'))
                break
    return dict(violations=out, obs=dict(obs), nontrivial=n_calls > 0, evals=max(1, n_calls), nontrivial_count=max(1, n_calls),
                sample=dict(cls='ambient', schedule=S['describe'], process_matrix_calls=n_calls, mpmath_compared=obs.get('mp_compared', 0)))


def run_case(case):
    from pyins import kalman
    if case['cls'] == 'ambient':
        return run_ambient(case)
    F, Q, dt, parts = gen(case)
    PENDING.clear()
    LAST.clear()
    LAST['use_mp'] = bool(case.get('mp'))
    obs = LAST.setdefault('obs', {})
    if isinstance(F, np.ndarray) and F.ndim == 2 and len(F) > 1:
        obs['column_major_inputs'] = int(F.flags.f_contiguous and not F.flags.c_contiguous)
        rn_ = np.abs(F).sum(axis=1) + 1e-300
        cn_ = np.abs(F).sum(axis=0) + 1e-300
        obs['systems_in_mixed_units'] = int(np.nanmax(np.maximum(rn_ / cn_, cn_ / rn_)) > 64)
    try:
        Phi, Qd = kalman.compute_process_matrices(F, Q, dt)
    except Exception as e:
        return dict(violations=[vio('exception', f'{type(e).__name__}: {e}')], obs=obs)
    out = list(PENDING)
    # Qd is linear in Q: the same system with Q scaled by an exact power of two to unit size must give the same Qd (scaled back) to rounding -
    # whatever the magnitude of Q (1e-26 .. 1e12 here)
    qmax = float(np.abs(np.asarray(Q, float)).max())
    if qmax > 0 and float(dt) > 0:
        c2 = 2.0 ** (-int(np.floor(np.log2(qmax))))
        LAST['use_mp'] = False
        PENDING.clear()
        Qd_n = kalman.compute_process_matrices(F, np.asarray(Q, float) * c2, dt)[1] / c2
        PENDING.clear()
        obs['scale_invariance_checked'] = obs.get('scale_invariance_checked', 0) + 1
        dq = float(np.abs(Qd_n - Qd).max())
        tolq = max(1e-9 * float(np.abs(Qd_n).max()), bounds(np.asarray(F, float), np.asarray(Q, float), float(dt))[1])
        if not dq <= tolq:
            out.append(vio('noise_scale_invariance', f'Qd for |Q| = {qmax:.2e} differs from the same system with Q scaled to unit size (and Qd scaled back) by {dq:.3e} '
                           f'({dq / max(float(np.abs(Qd_n).max()), 1e-300):.2e} of Qd; allowed {tolq:.2e}): the discretisation is not linear in Q at this magnitude'))
    # composition over a partition of dt (each sub-call is monitored too, float route only)
    LAST['use_mp'] = False
    PENDING.clear()
    n = len(F)
    Pc = np.eye(n)
    Qc = np.zeros((n, n))
    amp = 1.0
    for h in parts:
        Pi, Qi = kalman.compute_process_matrices(F, Q, h)
        Qc = Pi @ Qc @ Pi.T + Qi
        Pc = Pi @ Pc
    out.extend(PENDING)
    # a propagation loop as user code writes it: ONE pair of arrays updated in place between calls, same step (the contract above
    # judges every call against the values the arrays hold at that call; a memo that kept a reference to them returns the old answer)
    PENDING.clear()
    Fl, Ql = np.array(F, dtype=float), np.array(Q, dtype=float)
    hl = float(parts[0]) if dt > 0 else 0.0
    for it in range(3):
        kalman.compute_process_matrices(Fl, Ql, hl)
        obs['in_place_updates_between_calls'] = obs.get('in_place_updates_between_calls', 0) + 1
        if it % 2 == 0:
            Fl *= 0.5
            Fl += 0.01 * np.eye(n)
        else:
            Ql *= 3.0
    out.extend(dict(v, message='[same arrays updated in place between calls] ' + v['message']) for v in PENDING)
    bphi, bq = bounds(np.asarray(F, float), np.asarray(Q, float), float(dt))
    obs['composition_checked'] = obs.get('composition_checked', 0) + 1
    k = len(parts)
    eP = np.abs(Pc - Phi).max()
    eQ = np.abs(Qc - Qd).max()
    obs['max_comp_phi_ratio'] = max(obs.get('max_comp_phi_ratio', 0), eP / (k * bphi))
    if eP > k * bphi:
        out.append(vio('composition_phi', f'|prod Phi_i - Phi| = {eP:.3e} > {k * bphi:.3e}', parts=parts))
    if eQ > k * bq and eQ > 0:
        out.append(vio('composition_q', f'|acc Q_i - Qd| = {eQ:.3e} > {k * bq:.3e}', parts=parts))
    if bq > 0:
        obs['max_comp_q_ratio'] = max(obs.get('max_comp_q_ratio', 0), eQ / (k * bq))
    # the caller owns what it was handed back: overwrite it (a zero-step / zero-noise shortcut that hands out a shared constant matrix
    # answers the NEXT such call - of this or a later case - with these values, which the contract then sees)
    for arr in (Phi, Qd, Pi, Qi):
        if isinstance(arr, np.ndarray) and arr.flags.writeable:
            arr[...] = 4.25
            obs['returned_arrays_overwritten'] = obs.get('returned_arrays_overwritten', 0) + 1
    nontrivial = n > 2 and not (n == 15 and dt == 1.0)
    if case['cls'] == 'integer':
        obs['integer_typed_inputs'] = 1
    dt = float(dt)
    F, Q = np.asarray(F, float), np.asarray(Q, float)
    sample = dict(n=n, dt=dt, normFdt=float(np.linalg.norm(F, 2) * dt), rankQ=int(np.linalg.matrix_rank(Q)) if n else 0,
                  parts=len(parts), ratios={k_: v for k_, v in obs.items() if k_.startswith('max_')})
    return dict(violations=out, obs=obs, nontrivial=bool(nontrivial), sample=sample)
