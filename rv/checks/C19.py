"""C19 - public functions are pure, deterministic and keep the documented schema.

Monitors: the purity sanitizer (deep argument snapshots before / after, a second
run on read-only ndarray copies), the determinism replayer (equal inputs and equal
integer seeds -> bit-identical results), value agreement across argument forms
(writable ndarray / read-only ndarray / list / tuple / Series / DataFrame; single vs
stacked) and schema checks of returned tables - placed (i) *directed* on a registry
of call specifications covering every public callable enumerated at run time from
the module docstrings, and (ii) *ambient*: the sanitizer wrapped round every public
callable while filter schedules, integrator histories and (thorough) the
repository's own test-suite run, so that internal call sites are covered too.
"""
import inspect
import re
import types

import numpy as np
import pandas as pd

from rv.core import vio
from rv.instrument import patch, purity

ID = 'C19'
RULE = ('directed: every public callable of the ten modules (enumerated from the autosummary lists in the module docstrings plus '
        'public methods of public classes) x its registered call specifications x argument forms x 3 seeds; ambient: purity wrapper '
        'on all those callables during seeded filter schedules / integrator histories (and the repository test-suite in thorough); '
        'non-trivial = a call whose argument is a writable float ndarray, a table, or a repeated / re-formed call (the tests pass '
        'fresh literals once); distinct = (callable, spec, form, seed)'
        " Round 3: whole numbers as int64 arrays / lists of ints vs floats; labelled tables and series with their columns / labels in another order (results compared by label); tables whose time index is unnamed or named otherwise (caller's Index object must keep its name); one call history per specification: f(a), a overwritten IN PLACE, f(a) against f(fresh copy) computed beforehand; filter re-runs reuse the same Measurement objects; EstimationModel constructed from writable arrays with negative (disable) marks."
        ' Round 4: shared state is decided behaviourally - class poison (reference results of every module-level function, then every function called and its returned arrays overwritten by the caller, then every function again: bit-identical) incl. single / scalar paths and zero F / zero Q / zero dt / tiny Q; class threads (4 threads, switch interval 1 us, own argument copies, every result vs the sequential one); a change of module-level state by itself is counted in the evidence, not reported; measurement tables extending beyond the processed span; module / class-level scalars in the state snapshot.'
        ' Round 5: every prefix (1, 2, 3, 4, 5, 8, 9, 16, 17, n-1) of a stack of 19 gives the prefix of the full result; one number as float / numpy.float64 / 0-d array / 1-element array / 1-element list; class order - the registry evaluated in reverse order in a fresh process must give bit-identical results (sha256); 2-D angle arrays (Fortran order).')
ASSUMPTIONS = ['documented exceptions: estimate state (transform, bias) of EstimationModel objects handed to a filter; Integrator / '
               'EstimationModel / Parameters / Turntable methods may change their own object but never their arguments',
               'Turntable.generate_imu is excluded: it raises at baseline under scipy 1.18 (test_Turntable fails in BASELINE.json)',
               'values across argument forms compared to <= 4 ulp of the result scale (spline-based synthesis: 2e4 ulp, i.e. 4e-12 relative, because memory layout changes summation order); repeats of the same form bitwise']
REQUIRED_OBS = ['order_comparisons', 'batch_prefix_runs', 'scalar_guise_runs', 'poison_comparisons', 'concurrent_calls_compared', 'stack_of_one_runs', 'permuted_column_runs', 'integer_form_comparisons', 'index_name_runs', 'history_replays', 'module_state_checks', 'callables_enumerated', 'callables_with_spec', 'purity_checks', 'readonly_runs', 'determinism_checks',
                'form_comparisons', 'schema_checks', 'ambient_calls_checked']
REQUIRED_CLASSES = {'all': ['directed', 'ambient', 'poison', 'threads', 'order']}
MODULES = ['earth', 'error_model', 'filters', 'inertial_sensor', 'kalman', 'measurements', 'sim', 'strapdown', 'transform', 'util']
EXCLUDED = {'sim.Turntable.generate_imu': 'raises at baseline under scipy 1.18'}
EXTRA_PUBLIC = {'transform': ['ecef_to_lla'], 'util': ['Bunch']}

LLA = ['lat', 'lon', 'alt']
VEL = ['VN', 'VE', 'VD']
RPH = ['roll', 'pitch', 'heading']
NED = ['north', 'east', 'down']
RATE = ['rate_x', 'rate_y', 'rate_z']
GY = ['gyro_x', 'gyro_y', 'gyro_z']
AC = ['accel_x', 'accel_y', 'accel_z']
TH = ['theta_x', 'theta_y', 'theta_z']
DV = ['dv_x', 'dv_y', 'dv_z']
TRAJ = LLA + VEL + RPH
TERR = NED + VEL + RPH


# ------------------------------------------------------------------ enumeration
def enumerate_public():
    import importlib
    names = []
    for m in MODULES:
        mod = importlib.import_module('pyins.' + m)
        doc = mod.__doc__ or ''
        listed = [w for w in re.findall(r'^\s{4}(\w+)\s*$', doc, flags=re.M) if hasattr(mod, w)]
        listed += EXTRA_PUBLIC.get(m, [])
        for w in dict.fromkeys(listed):
            o = getattr(mod, w)
            if inspect.isclass(o):
                names.append(f'{m}.{w}')
                for k, v in vars(o).items():
                    if k.startswith('_') or not (inspect.isfunction(v) or isinstance(v, (classmethod, staticmethod))):
                        continue
                    names.append(f'{m}.{w}.{k}')
            elif callable(o):
                names.append(f'{m}.{w}')
    return names


# ------------------------------------------------------------------ schema predicates
def is_time_index(idx, name='time'):
    a = np.asarray(idx, float)
    return idx.name == name and (len(a) < 2 or (np.diff(a) > 0).all())


def schema_trajectory(df):
    if not isinstance(df, pd.DataFrame) or list(df.columns) != TRAJ:
        return f'trajectory columns {list(getattr(df, "columns", []))}'
    if not is_time_index(df.index):
        return f'trajectory index name {df.index.name!r} / not increasing'


def schema_imu(df):
    if list(df.columns) != GY + AC or not is_time_index(df.index):
        return f'IMU table columns {list(df.columns)} index {df.index.name!r}'


def schema_increments(df):
    if list(df.columns) != ['dt'] + TH + DV or not is_time_index(df.index):
        return f'increments columns {list(df.columns)} index {df.index.name!r}'


def schema_traj_error(df):
    if list(df.columns) != TERR:
        return f'trajectory error columns {list(df.columns)}'


def schema_filter_result(r, gm, am, sensors):
    for k in ('trajectory', 'trajectory_sd', 'gyro', 'gyro_sd', 'accel', 'accel_sd', 'innovations'):
        if k not in r:
            return f'result lacks {k}'
    if list(r['trajectory'].columns) != TRAJ:
        return f'result trajectory columns {list(r["trajectory"].columns)}'
    if list(r['trajectory_sd'].columns) != TERR:
        return f'trajectory_sd columns {list(r["trajectory_sd"].columns)}'
    for key, m in (('gyro', gm), ('gyro_sd', gm), ('accel', am), ('accel_sd', am)):
        if list(r[key].columns) != list(m.states):
            return f'{key} columns {list(r[key].columns)} != model states {list(m.states)}'
    for s in sensors:
        if type(s).__name__ not in r['innovations']:
            return f'innovations lacks {type(s).__name__}'
    return None


# ------------------------------------------------------------------ fixtures
_FIX = {}


def fixtures():
    if _FIX:
        return _FIX
    from pyins import sim, strapdown, measurements
    t = np.arange(0, 6, 0.1)
    n = len(t)
    L = np.column_stack([50 + 1e-5 * t, 60 + 2e-5 * t, 100 + 0.1 * t])
    R = np.column_stack([5 * np.sin(t), 3 * np.cos(t), 20 * t])
    V = np.column_stack([1.1 + 0.2 * np.sin(t), 1.4 * np.ones(n), -0.1 * np.cos(t)])
    traj, imu = sim.generate_imu(t, L, R, V)
    inc = strapdown.compute_increments_from_imu(imu, 'rate')
    _FIX.update(t=t, L=L, R=R, V=V, traj=traj, imu=imu, inc=inc)
    return _FIX


class Call:
    def __init__(self, label, fn, args, kwargs=None, vary=(), schema=None, seed_arg=None, ulp=4, self_obj=None,
                 self_allowed=(), compare=True, single=None, table_forms=(), nd=(), no_int=(), history=True, labelled=()):
        self.label = label
        self.fn = fn
        self.args = list(args)
        self.kwargs = dict(kwargs or {})
        self.vary = list(vary)             # positions of ndarray args that also accept list / tuple / read-only
        self.schema = schema
        self.seed_arg = seed_arg
        self.ulp = ulp
        self.self_obj = self_obj           # factory of the bound object (fresh per invocation) or None
        self.self_allowed = set(self_allowed)
        self.compare = compare
        self.single = single               # (row selector for args, row selector for result) for stacked vs single
        self.table_forms = list(table_forms)
        self.no_int = set(no_int)          # positions whose integer-rounded values are not a valid input (strictly increasing times)
        self.labelled = list(labelled)     # positions of label-addressed tables / series (Trajectory, Pva, Imu, Increments, measurement data)
        self.history = history             # replay f(a) -> overwrite a in place -> f(a) against f(fresh copy)
        self.nd = list(nd)                 # positions documented as ndarray: only read-only / Fortran-ordered forms   # positions of ndarray args that also accept a DataFrame / Series


def specs(rng):
    """The registry: for every public callable the call specifications that drive it."""
    from pyins import (earth, error_model, filters, inertial_sensor, kalman, measurements, sim, strapdown, transform, util)
    F = fixtures()
    t, L, R, V, traj, imu, inc = F['t'], F['L'], F['R'], F['V'], F['traj'], F['imu'], F['inc']
    n = 19
    lat = rng.uniform(-80, 80, n)
    lon = rng.uniform(-180, 180, n)
    alt = rng.uniform(0, 1e4, n)
    lla = np.column_stack([lat, lon, alt])
    dr = rng.standard_normal((n, 3)) * 10
    rph = np.column_stack([rng.uniform(-180, 180, n), rng.uniform(-80, 80, n), rng.uniform(-180, 180, n)])
    S = {}

    def add(name, *calls):
        S.setdefault(name, []).extend(calls)

    row0 = (lambda a: a[0], lambda r: r[0])
    # ---- earth
    add('earth.principal_radii', Call('stack', earth.principal_radii, [lat, alt], vary=[0, 1]))
    add('earth.gravity', Call('stack', earth.gravity, [lat, alt], vary=[0, 1]))
    add('earth.gravity_n', Call('stack', earth.gravity_n, [lat, alt], vary=[0, 1]))
    add('earth.gravitation_ecef', Call('stack', earth.gravitation_ecef, [lla], vary=[0], single=row0))
    add('earth.curvature_matrix', Call('stack', earth.curvature_matrix, [lat, alt], vary=[0, 1]))
    add('earth.rate_n', Call('stack', earth.rate_n, [lat], vary=[0]))
    # ---- transform
    add('transform.lla_to_ecef', Call('stack', transform.lla_to_ecef, [lla], vary=[0], single=row0))
    add('transform.ecef_to_lla', Call('stack', transform.ecef_to_lla, [transform.lla_to_ecef(lla)], vary=[0], single=row0))
    add('transform.lla_to_ned', Call('first-origin', transform.lla_to_ned, [lla], vary=[0]),
        Call('origin', transform.lla_to_ned, [lla, lla[2].copy()], vary=[0, 1]),
        Call('frame', transform.lla_to_ned, [pd.DataFrame(lla, columns=LLA, index=pd.Index(np.arange(n) * 0.5, name='time'))]))
    add('transform.perturb_lla', Call('stack', transform.perturb_lla, [lla, dr], vary=[0, 1], single=(lambda a: a[0], lambda r: r[0])),
        Call('frame', transform.perturb_lla, [pd.DataFrame(lla, columns=LLA), pd.DataFrame(dr, columns=NED)]))
    add('transform.compute_lla_difference', Call('stack', transform.compute_lla_difference, [lla, lla + 1e-4], vary=[0, 1], single=row0))
    add('transform.mat_en_from_ll', Call('stack', transform.mat_en_from_ll, [lat, lon], vary=[0, 1]))
    add('transform.mat_from_rph', Call('stack', transform.mat_from_rph, [rph], vary=[0], single=row0))
    add('transform.mat_to_rph', Call('stack', transform.mat_to_rph, [transform.mat_from_rph(rph)], vary=[0], single=row0))
    add('transform.translate_trajectory', Call('traj', transform.translate_trajectory, [traj, np.array([1., 2, 3])], vary=[1],
                                               schema=schema_trajectory, labelled=[0]),
        Call('pva+rates', transform.translate_trajectory, [pd.concat([traj.iloc[3], pd.Series([.1, .2, .3], index=RATE)]), np.array([1., 2, 3])], vary=[1], labelled=[0]))
    add('transform.resample_state', Call('traj', transform.resample_state, [traj, t[::3] + 0.013], vary=[1], labelled=[0]))
    add('transform.compute_state_difference', Call('frames', transform.compute_state_difference, [traj, traj.iloc[::2] * 1.0], schema=schema_traj_error, labelled=[0, 1]),
        Call('frames-swapped', transform.compute_state_difference, [traj.iloc[::2] * 1.0, traj], schema=schema_traj_error, labelled=[0, 1]),
        Call('series', transform.compute_state_difference, [traj.iloc[1], traj.iloc[2]], labelled=[0, 1]))
    from scipy.spatial.transform import Rotation
    rots = Rotation.from_euler('xyz', traj[RPH].values, True)
    add('transform.smooth_rotations', Call('rot', transform.smooth_rotations, [rots, 0.1, 0.5]), Call('rot-0.26', transform.smooth_rotations, [rots, 0.1, 0.26]),
        Call('rot-0.34', transform.smooth_rotations, [rots, 0.1, 0.34]))
    # Round 6: the same tables on a time origin that is not zero (a function working "in time counted from the first sample" in place)
    traj_o = traj.set_axis(pd.Index(np.asarray(traj.index, float) + 86.5, name=traj.index.name))
    add('transform.resample_state', Call('traj-offset-origin', transform.resample_state, [traj_o, t[::3] + 86.513], vary=[1], labelled=[0]))
    add('transform.compute_state_difference', Call('frames-offset-origin', transform.compute_state_difference, [traj_o, traj_o.iloc[::2] * 1.0],
                                                   schema=schema_traj_error, labelled=[0, 1]))
    add('transform.smooth_state', Call('traj-offset-origin', transform.smooth_state, [traj_o, 0.5], labelled=[0]))
    add('transform.smooth_state', Call('traj', transform.smooth_state, [traj, 0.5], labelled=[0]), Call('traj-0.26', transform.smooth_state, [traj, 0.26]),
        Call('traj-0.34', transform.smooth_state, [traj, 0.34]))
    # ---- util
    a3 = rng.standard_normal((n, 3, 3))
    b3 = rng.standard_normal((3, 3))
    add('util.mm_prod', Call('stack', util.mm_prod, [a3, b3, True, True], vary=[0, 1]), Call('plain', util.mm_prod, [b3, b3.T.copy()], vary=[0, 1]))
    add('util.mm_prod_symmetric', Call('stack', util.mm_prod_symmetric, [a3, b3], vary=[0, 1]))
    add('util.mv_prod', Call('stack', util.mv_prod, [a3, dr, True], vary=[0, 1]), Call('single', util.mv_prod, [b3, dr[0].copy()], vary=[0, 1]))
    add('util.skew_matrix', Call('stack', util.skew_matrix, [dr], vary=[0], single=row0))
    add('util.compute_rms', Call('array', util.compute_rms, [dr], vary=[0], table_forms=[0]))
    ang = rng.uniform(-1000, 1000, 12)
    add('util.to_180_range', Call('array', util.to_180_range, [ang], vary=[0]), Call('array2d', util.to_180_range, [ang.reshape(4, 3).copy()], vary=[0]), Call('series', util.to_180_range, [pd.Series(ang)]),
        Call('frame', util.to_180_range, [pd.DataFrame({'a': ang, 'b': -ang})]), Call('scalar', util.to_180_range, [float(ang[0])]))
    add('util.Bunch', Call('ctor', util.Bunch, [], kwargs=dict(a=1, b=np.ones(2))))
    # ---- sim
    for st in ('rate', 'increment'):
        sch = lambda r: schema_trajectory(r[0]) or schema_imu(r[1])      # noqa: E731
        add('sim.generate_imu', Call('pos+vel/' + st, sim.generate_imu, [t, L, R, V, st], vary=[0, 1, 2, 3], schema=sch, ulp=20000, no_int=[0]),
            Call('pos/' + st, sim.generate_imu, [t, L, R, None, st], vary=[0, 1, 2], schema=sch, ulp=20000, no_int=[0]),
            Call('init+vel/' + st, sim.generate_imu, [t, L[0].copy(), R, V, st], vary=[0, 1, 2, 3], schema=sch, ulp=20000, no_int=[0]))
    add('sim.generate_sine_velocity_motion',
        Call('sine', sim.generate_sine_velocity_motion, [0.1, 5, np.array([50., 60, 100]), np.array([1., 2, 0]), np.array([1., 1, 0]), 10, np.array([0., 90, 0])],
             vary=[2, 3, 4, 6], schema=lambda r: schema_trajectory(r[0]) or schema_imu(r[1]), ulp=20000))
    sub = traj.iloc[5::10]
    add('sim.generate_position_measurements', Call('seeded', sim.generate_position_measurements, [sub, 1.0], seed_arg='rng', labelled=[0],
                                                   schema=lambda r: None if list(r.columns) == LLA and r.index.equals(sub.index) else f'columns {list(r.columns)}'))
    add('sim.generate_ned_velocity_measurements', Call('seeded', sim.generate_ned_velocity_measurements, [sub, 0.5], seed_arg='rng', labelled=[0],
                                                       schema=lambda r: None if list(r.columns) == VEL and r.index.equals(sub.index) else f'columns {list(r.columns)}'))
    add('sim.generate_body_velocity_measurements', Call('seeded', sim.generate_body_velocity_measurements, [sub, 0.5], seed_arg='rng', labelled=[0],
                                                        schema=lambda r: None if list(r.columns) == ['VX', 'VY', 'VZ'] and r.index.equals(sub.index) else f'columns {list(r.columns)}'))
    add('sim.generate_pva_error', Call('seeded', sim.generate_pva_error, [1.0, 0.5, 0.1, 0.3], seed_arg='rng',
                                       schema=lambda r: None if list(r.index) == TERR else f'labels {list(r.index)}'))
    pe = sim.generate_pva_error(1, 1, 1, 1, 0)
    add('sim.perturb_pva', Call('pva', sim.perturb_pva, [traj.iloc[0], pe], schema=lambda r: None if list(r.index) == TRAJ else f'labels {list(r.index)}', labelled=[0, 1]))
    add('sim.Turntable', Call('ctor', sim.Turntable, [np.array([50., 60, 100])], kwargs=dict(table_rph=np.array([0.1, 0.2, 30.])), vary=[0], compare=False))
    add('sim.Turntable.rotate', Call('rotate', lambda tt, *a: tt.rotate(*a), ['inner', 90.0], self_obj=lambda: sim.Turntable([50., 60, 100]),
                                     self_allowed={'inner_angle', 'outer_angle', 'time', 'actions'}, compare=False))
    add('sim.Turntable.rest', Call('rest', lambda tt, *a: tt.rest(*a), [2.0], self_obj=lambda: sim.Turntable([50., 60, 100]),
                                   self_allowed={'time', 'actions'}, compare=False))
    # ---- strapdown
    for st in ('rate', 'increment'):
        add('strapdown.compute_increments_from_imu', Call(st, strapdown.compute_increments_from_imu, [imu, st], schema=schema_increments, labelled=[0]))
    add('strapdown.Integrator', Call('ctor', lambda p, wa: strapdown.Integrator(p, wa).trajectory, [traj.iloc[0], True], schema=schema_trajectory, labelled=[0]),
        Call('ctor2d', lambda p, wa: strapdown.Integrator(p, wa).trajectory, [traj.iloc[0], False], schema=schema_trajectory, labelled=[0]))
    mkI = lambda: strapdown.Integrator(traj.iloc[0])        # noqa: E731
    allowed_I = {'lla', 'velocity_n', 'mat_nb', 'trajectory'}
    add('strapdown.Integrator.integrate', Call('all', lambda I, x: I.integrate(x), [inc], self_obj=mkI, self_allowed=allowed_I, schema=schema_trajectory, labelled=[0]))
    add('strapdown.Integrator.predict', Call('row', lambda I, x: I.predict(x), [inc.iloc[0]], self_obj=mkI, self_allowed={'lla', 'velocity_n', 'mat_nb'}, labelled=[0],
                                             schema=lambda r: None if list(r.index) == TRAJ else f'labels {list(r.index)}'))
    add('strapdown.Integrator.get_time', Call('get', lambda I: I.get_time(), [], self_obj=mkI))
    add('strapdown.Integrator.get_pva', Call('get', lambda I: I.get_pva(), [], self_obj=mkI))
    add('strapdown.Integrator.set_pva', Call('set', lambda I, p: I.set_pva(p), [traj.iloc[1] * 1.0], self_obj=mkI, self_allowed=allowed_I, labelled=[0]))
    # the no-altitude mode with a state whose vertical velocity is not zero (the object may normalise its own copy, never the caller's)
    pva_vd = traj.iloc[0] * 1.0
    pva_vd['VD'] = -0.64
    mkI2 = lambda: strapdown.Integrator(pva_vd, False)        # noqa: E731
    add('strapdown.Integrator', Call('ctor2d-vd', lambda p, wa: strapdown.Integrator(p, wa).trajectory, [pva_vd, False], schema=schema_trajectory))
    add('strapdown.Integrator.set_pva', Call('set2d-vd', lambda I, p: I.set_pva(p), [pva_vd * 1.0], self_obj=mkI2, self_allowed=allowed_I))
    add('strapdown.Integrator.integrate', Call('2d', lambda I, x: I.integrate(x), [inc], self_obj=mkI2, self_allowed=allowed_I, schema=schema_trajectory, labelled=[0]))
    add('strapdown.Integrator.predict', Call('2d', lambda I, x: I.predict(x), [inc.iloc[0]], self_obj=mkI2, self_allowed={'lla', 'velocity_n', 'mat_nb'}, labelled=[0]))
    # ---- error model
    em3, em2 = error_model.InsErrorModel(True), error_model.InsErrorModel(False)
    pr = pd.concat([traj.iloc[3], pd.Series([.1, .2, .3], index=RATE)])
    lever = np.array([1., 2, 3])
    add('error_model.InsErrorModel', Call('ctor', lambda wa: error_model.InsErrorModel(wa).states, [True]))
    for tag, em in (('3d', em3), ('2d', em2)):
        add('error_model.InsErrorModel.system_matrices', Call('traj/' + tag, em.system_matrices, [traj], labelled=[0]), Call('pva/' + tag, em.system_matrices, [traj.iloc[2]], labelled=[0]))
        add('error_model.InsErrorModel.transform_to_output', Call('traj/' + tag, em.transform_to_output, [traj], labelled=[0]), Call('pva/' + tag, em.transform_to_output, [traj.iloc[2]], labelled=[0]))
        add('error_model.InsErrorModel.transform_to_internal', Call('pva/' + tag, em.transform_to_internal, [traj.iloc[2]], labelled=[0]))
        add('error_model.InsErrorModel.correct_pva', Call('pva/' + tag, em.correct_pva, [traj.iloc[2], rng.standard_normal(em.n_states) * 1e-3], nd=[1], labelled=[0],
                                                        schema=lambda r: None if list(r.index) == TRAJ else f'labels {list(r.index)}'))
        add('error_model.InsErrorModel.position_error_jacobian', Call('lever/' + tag, em.position_error_jacobian, [pr, lever], vary=[1], labelled=[0]),
            Call('nolever/' + tag, em.position_error_jacobian, [pr], labelled=[0]))
        add('error_model.InsErrorModel.ned_velocity_error_jacobian', Call('lever/' + tag, em.ned_velocity_error_jacobian, [pr, lever], vary=[1], labelled=[0]),
            Call('nolever/' + tag, em.ned_velocity_error_jacobian, [traj.iloc[3]], labelled=[0]))
        add('error_model.InsErrorModel.body_velocity_error_jacobian', Call('pva/' + tag, em.body_velocity_error_jacobian, [pr], labelled=[0]))
        add('error_model.propagate_errors', Call('const/' + tag, error_model.propagate_errors, [traj, pe, np.array([1e-5, 0, 0]), np.array([0, 1e-3, 0]), tag == '3d'],
                                                 vary=[2, 3], labelled=[0, 1], schema=lambda r: schema_traj_error(r[0])),
            Call('per-stamp/' + tag, error_model.propagate_errors, [traj, None, np.tile([1e-5, 0, 0], (len(traj), 1)), np.tile([0, 1e-3, 0.], (len(traj), 1)), tag == '3d'],
                 vary=[2, 3], labelled=[0], schema=lambda r: schema_traj_error(r[0])))
    add('error_model.propagate_errors', Call('defaults', error_model.propagate_errors, [traj], schema=lambda r: schema_traj_error(r[0]), labelled=[0]))
    # ---- kalman
    P = np.diag(rng.uniform(1, 2, 4))
    Hm = rng.standard_normal((2, 4))
    add('kalman.correct', Call('4x2', kalman.correct, [np.zeros(4), P, np.array([1., 2]), Hm, np.eye(2)], nd=[0, 1, 2, 3, 4], ulp=64))
    add('kalman.compute_process_matrices', Call('4', kalman.compute_process_matrices, [rng.standard_normal((4, 4)), np.eye(4), 0.5], nd=[0, 1], ulp=64),
        Call('zeroF', kalman.compute_process_matrices, [np.zeros((4, 4)), np.eye(4), 0.5], nd=[0, 1], ulp=64),
        Call('zeroQ', kalman.compute_process_matrices, [rng.standard_normal((4, 4)), np.zeros((4, 4)), 0.5], nd=[0, 1], ulp=64),
        Call('zero-dt', kalman.compute_process_matrices, [rng.standard_normal((4, 4)), np.eye(4), 0.0], nd=[0, 1], ulp=64),
        Call('tinyQ', kalman.compute_process_matrices, [rng.standard_normal((4, 4)), 1e-12 * np.eye(4), 0.5], nd=[0, 1], ulp=64))
    # ---- inertial sensor
    mk_model = lambda: inertial_sensor.EstimationModel(bias_sd=0.1, noise=[0.01, 0, 0.01], bias_walk=0.001, scale_misal_sd=0.01 * np.ones((3, 3)))   # noqa: E731
    xm = rng.standard_normal(12) * 1e-3
    add('inertial_sensor.EstimationModel', Call('ctor', lambda *a: vars(inertial_sensor.EstimationModel(*a)),
                                                [np.array([0.1, 0, 0.2]), np.array([0.01, 0.01, 0]), np.array([1e-3, 0, 0]), 0.01 * np.eye(3)], vary=[0, 1, 2, 3]))
    add('inertial_sensor.EstimationModel', Call('ctor-nonpositive-marks', lambda *a: vars(inertial_sensor.EstimationModel(*a)),
                                                [np.array([-1.0, 0.1, 0.2]), np.array([0.01, -1.0, 0]), np.array([-1.0, 0, 1e-3]), np.array([[0.01, -1, 0], [0, 0.01, -0.5], [-1, 0, 0.01]])],
                                                vary=[0, 1, 2, 3]),
        Call('ctor-whole-numbers', lambda *a: vars(inertial_sensor.EstimationModel(*a)),
             [np.array([1.0, 0, 2]), np.array([1.0, 1, 0]), np.array([1.0, 0, 0]), np.array([[1.0, 0, 2], [0, 1, 0], [3, 0, 1]])], vary=[0, 1, 2, 3]))
    add('inertial_sensor.EstimationModel.output_matrix', Call('stack', lambda m, r: m.output_matrix(r), [rng.standard_normal((5, 3))], vary=[0], self_obj=mk_model),
        Call('single', lambda m, r: m.output_matrix(r), [rng.standard_normal(3)], vary=[0], self_obj=mk_model))
    add('inertial_sensor.EstimationModel.reset_estimates', Call('reset', lambda m: m.reset_estimates(), [], self_obj=mk_model, self_allowed={'transform', 'bias'}))
    add('inertial_sensor.EstimationModel.update_estimates', Call('update', lambda m, x: m.update_estimates(x), [xm], vary=[0], self_obj=mk_model,
                                                                 self_allowed={'transform', 'bias'}))
    def upd():
        m = mk_model()
        m.update_estimates(xm)
        return m
    add('inertial_sensor.EstimationModel.correct_increments', Call('frame', lambda m, d, i: m.correct_increments(d, i), [inc['dt'], inc[TH]], self_obj=upd),
        Call('series', lambda m, d, i: m.correct_increments(d, i), [inc['dt'].iloc[0], inc[TH].iloc[0]], self_obj=upd))
    add('inertial_sensor.EstimationModel.get_estimates', Call('get', lambda m: m.get_estimates(), [], self_obj=upd))
    add('inertial_sensor.Parameters', Call('ctor', lambda *a, **k: {k_: v for k_, v in vars(inertial_sensor.Parameters(*a, **k)).items() if k_ != 'rng'},
                                           [np.eye(3) + 1e-3, np.array([1., 2, 3]), 0.1, np.array([0.01, 0, 0])], kwargs=dict(rng=3), vary=[0, 1, 3]))
    add('inertial_sensor.Parameters.from_EstimationModel', Call('seeded', lambda model, rng=None: {k_: v for k_, v in vars(inertial_sensor.Parameters.from_EstimationModel(model, rng)).items() if k_ != 'rng'},
                                                                [mk_model()], seed_arg='rng'))
    add('inertial_sensor.Parameters.from_EstimationModel', Call('seeded+apply', lambda model, readings, rng=None: inertial_sensor.Parameters.from_EstimationModel(model, rng).apply(readings, 'rate'),
                                                                [mk_model(), imu[GY]], seed_arg='rng'))
    add('inertial_sensor.Parameters.apply', Call('walk-only-table', lambda r, rng=None: _apply_table(inertial_sensor.Parameters(bias_walk=[0.02, 0, 0.01], rng=rng), r),
                                                 [imu[GY]], seed_arg='rng',
                                                 schema=lambda r: None if list(r.columns) == ['bias_x', 'bias_z'] else f'sensor-estimate table columns {list(r.columns)} for walk on x, z'))
    for st in ('rate', 'increment'):
        add('inertial_sensor.Parameters.apply', Call(st, lambda r, s, rng=None: inertial_sensor.Parameters(np.eye(3) + 1e-3, [1., 2, 3], 0.1, 0.01, rng=rng).apply(r, s),
                                                     [imu[GY], st], seed_arg='rng',
                                                     schema=lambda r: None if list(r.columns) == GY and is_time_index(r.index) else f'columns {list(r.columns)}'))
        add('inertial_sensor.apply_imu_parameters', Call(st, lambda i, s, rng=None: inertial_sensor.apply_imu_parameters(
            i, s, inertial_sensor.Parameters(noise=0.1, bias=[1e-3, 0, 0], rng=rng), inertial_sensor.Parameters(noise=0.1, rng=None if rng is None else rng + 1)),
            [imu, st], seed_arg='rng', schema=schema_imu),
            Call('defaults/' + st, inertial_sensor.apply_imu_parameters, [imu, st], schema=schema_imu, labelled=[0]))
    # ---- measurements
    pos_data = sim.generate_position_measurements(traj.iloc[10::20], 1, 0)
    vel_data = sim.generate_ned_velocity_measurements(traj.iloc[10::20], 1, 0)
    bod_data = sim.generate_body_velocity_measurements(traj.iloc[10::20], 1, 0)
    def beyond(d):
        # the receiver logged before the INS record starts and after it ends: samples outside the processed span (must be ignored, not removed)
        ext = pd.concat([d.iloc[:1].set_axis([-0.75]), d, d.iloc[-1:].set_axis([99.5])])
        ext.index.name = d.index.name
        return ext
    pos_data, vel_data, bod_data = beyond(pos_data), beyond(vel_data), beyond(bod_data)
    tm = traj.index[10]
    add('measurements.Measurement', Call('ctor', lambda d: measurements.Measurement(d).data, [pos_data]))
    add('measurements.Measurement.compute_matrices', Call('abstract', lambda: _raises(lambda: measurements.Measurement(pos_data).compute_matrices(tm, pr, em3)), []))
    add('measurements.Position', Call('ctor', lambda d, sd, l: measurements.Position(d, sd, l).compute_matrices(tm, pr, em3), [pos_data, 1.0, lever], vary=[2], labelled=[0]))
    add('measurements.NedVelocity', Call('ctor', lambda d, sd, l: measurements.NedVelocity(d, sd, l).compute_matrices(tm, pr, em3), [vel_data, 1.0, lever], vary=[2], labelled=[0]))
    add('measurements.BodyVelocity', Call('ctor', lambda d, sd: measurements.BodyVelocity(d, sd).compute_matrices(tm, pr, em3), [bod_data, 1.0], labelled=[0]))
    for tag, em in (('3d', em3), ('2d', em2)):
        add('measurements.Position.compute_matrices', Call('hit/' + tag, lambda m, *a: m.compute_matrices(*a), [tm, pr, em], labelled=[1],
                                                           self_obj=lambda: measurements.Position(pos_data, 1.0, lever)),
            Call('miss/' + tag, lambda m, *a: m.compute_matrices(*a), [tm + 0.01, pr, em], labelled=[1], self_obj=lambda: measurements.Position(pos_data, 1.0, lever)))
        add('measurements.NedVelocity.compute_matrices', Call('hit/' + tag, lambda m, *a: m.compute_matrices(*a), [tm, pr, em], labelled=[1],
                                                              self_obj=lambda: measurements.NedVelocity(vel_data, 1.0, lever)))
        add('measurements.BodyVelocity.compute_matrices', Call('hit/' + tag, lambda m, *a: m.compute_matrices(*a), [tm, pr, em], labelled=[1],
                                                               self_obj=lambda: measurements.BodyVelocity(bod_data, 1.0)))
    # ---- filters (the documented exception: estimate state of the sensor models)
    def fb(init, increments, gm, am, meas, ts, wa):
        r = filters.run_feedback_filter(init, 1, 1, 1, 1, increments, gm, am, measurements=meas, time_step=ts, with_altitude=wa)
        return dict(r), schema_filter_result(r, gm, am, meas)

    def ff(nom, comp, gm, am, meas, increments, ts, wa):
        r = filters.run_feedforward_filter(nom, comp, 1, 1, 1, 1, gm, am, measurements=meas, increments=increments, time_step=ts, with_altitude=wa)
        return dict(r), schema_filter_result(r, gm, am, meas)
    mk_g = lambda: inertial_sensor.EstimationModel(bias_sd=1e-4, noise=1e-5, scale_misal_sd=[[1e-3, 0, 0], [0, 0, 0], [0, 0, 0]])      # noqa: E731
    mk_a = lambda: inertial_sensor.EstimationModel(bias_sd=1e-2, bias_walk=1e-4)      # noqa: E731
    # (built from copies: constructing these while the registry is assembled must not touch the fixtures the constructor specifications snapshot)
    mk_meas = lambda: [measurements.Position(pos_data.copy(), 1.0, lever), measurements.NedVelocity(vel_data.copy(), 0.5, lever), measurements.BodyVelocity(bod_data.copy(), 0.5)]      # noqa: E731
    rev = lambda d: d[list(d.columns)[::-1]].copy()      # noqa: E731
    mk_meas_rev = lambda: [measurements.Position(rev(pos_data), 1.0, lever), measurements.NedVelocity(rev(vel_data), 0.5, lever), measurements.BodyVelocity(rev(bod_data), 0.5)]      # noqa: E731

    def fb_pair(init, increments, wa):
        a = filters.run_feedback_filter(init, 1, 1, 1, 1, increments, mk_g(), mk_a(), measurements=mk_meas(), time_step=0.5, with_altitude=wa)
        b = filters.run_feedback_filter(init, 1, 1, 1, 1, increments, mk_g(), mk_a(), measurements=mk_meas_rev(), time_step=0.5, with_altitude=wa)
        bad = purity.compare_flat(purity.flatten(dict(a)), purity.flatten(dict(b)), ulp=0)
        return dict(a), (f'measurement tables with their labelled columns in another order change the filter result: {bad[:3]}' if bad else None)
    for wa in (True, False):
        add('filters.run_feedback_filter', Call(f'measurement-columns-reordered/wa={wa}', fb_pair, [traj.iloc[0], inc, wa], schema=lambda r: r[1], history=False))
    for wa in (True, False):
        add('filters.run_feedback_filter', Call(f'wa={wa}', fb, [traj.iloc[0], inc, mk_g(), mk_a(), mk_meas(), 0.5, wa], schema=lambda r: r[1], labelled=[0, 1]))
        add('filters.run_feedforward_filter', Call(f'wa={wa}', ff, [traj, traj * 1.0, mk_g(), mk_a(), mk_meas(), inc, 0.5, wa], schema=lambda r: r[1], labelled=[0, 1, 5]))
    return S


def _apply_table(par, readings):
    par.apply(readings, 'rate')
    return par.data_frame


def _raises(f):
    try:
        f()
    except NotImplementedError:
        return 'NotImplementedError'
    return 'returned'


# ------------------------------------------------------------------ hidden module state
def module_state():
    """Snapshot of every mutable module-level / class-level object of the ten modules (lists, dicts, sets, arrays, tables) and of
    the size of any functools cache: a public call that changes it has hidden state, i.e. its result can depend on the call order."""
    import importlib
    snap = {}
    for m in MODULES + ['_numba_integrate']:
        mod = importlib.import_module('pyins.' + m)
        for k, v in vars(mod).items():
            if k.startswith('__'):          # interpreter bookkeeping (__warningregistry__, __builtins__, ...)
                continue
            if isinstance(v, (list, dict, set, np.ndarray, pd.DataFrame, pd.Series)):
                snap[f'{m}.{k}'] = purity.snapshot(v)
            elif isinstance(v, (int, float, bool, str, tuple, type(None), np.generic)):
                snap[f'{m}.{k}'] = ('val', repr(v))          # module-level scalars too (a 'last dt', a call counter, a lazily set flag)
            elif hasattr(v, 'cache_info') and callable(getattr(v, 'cache_info', None)):
                try:
                    snap[f'{m}.{k}.cache'] = ('val', repr(v.cache_info().currsize))
                except Exception:
                    pass
            elif inspect.isclass(v) and getattr(v, '__module__', '') == mod.__name__:
                for ck, cv in vars(v).items():
                    if isinstance(cv, (list, dict, set, np.ndarray)) and not ck.startswith('__'):
                        snap[f'{m}.{k}.{ck}'] = purity.snapshot(cv)
                    elif isinstance(cv, (int, float, bool, str, tuple, type(None), np.generic)) and not ck.startswith('__'):
                        snap[f'{m}.{k}.{ck}'] = ('val', repr(cv))
            elif inspect.isfunction(v) and getattr(v, '__module__', '') == mod.__name__:
                for ck, cv in vars(v).items():          # function attributes used as caches
                    snap[f'{m}.{k}.{ck}'] = purity.snapshot(cv)
    return snap


def module_state_diff(a, b):
    return sorted([k for k in set(a) | set(b) if a.get(k) != b.get(k)])


# ------------------------------------------------------------------ directed driver
def to_form(a, form):
    if form == 'ndarray':
        return np.array(a, copy=True)
    if form == 'readonly':
        b = np.array(a, copy=True)
        b.flags.writeable = False
        return b
    if form == 'list':
        return np.asarray(a).tolist()
    if form == 'tuple':
        def tup(x):
            return tuple(tup(y) for y in x) if isinstance(x, list) else x
        return tup(np.asarray(a).tolist())
    if form == 'fortran':
        return np.asfortranarray(np.array(a, copy=True))
    raise ValueError(form)


def clone(o):
    if isinstance(o, (np.ndarray, pd.DataFrame, pd.Series)):
        return o.copy()
    if isinstance(o, list):
        return [clone(x) for x in o]
    if hasattr(o, '__dict__') and type(o).__module__.startswith('pyins'):
        import copy
        return copy.deepcopy(o)
    return o


def invoke(call, args, seed=None):
    kwargs = {k: clone(v) for k, v in call.kwargs.items()}
    if call.seed_arg is not None:
        kwargs[call.seed_arg] = seed
    if call.self_obj is not None:
        obj = call.self_obj()
        return obj, call.fn(obj, *args, **kwargs)
    return None, call.fn(*args, **kwargs)


# private attributes of pyins objects handed in (memo fields) are not "arrays, tables or series passed to it": a memo that changes
# behaviour is decided by the re-run / history monitors, not by its mere existence
PRIVATE = re.compile(r'\._[A-Za-z0-9_]*(\[|$)')


def canon(o):
    """Label-sorted copy of a result (for comparing calls whose input tables had their columns in another order)."""
    if isinstance(o, pd.DataFrame):
        return o[sorted(o.columns, key=str)]
    if isinstance(o, pd.Series):
        return o[sorted(o.index, key=str)] if o.index.is_unique and all(isinstance(k, str) for k in o.index) else o
    if isinstance(o, dict):
        return {k: canon(v) for k, v in o.items()}
    if isinstance(o, (list, tuple)):
        return type(o)(canon(x) for x in o) if type(o) in (list, tuple) else o
    return o


def permute_labels(o, rng):
    if isinstance(o, pd.DataFrame) and o.shape[1] > 1:
        c = list(o.columns)
        return o[c[1:] + c[:1]].copy() if rng.random() < 0.5 else o[c[::-1]].copy()
    if isinstance(o, pd.Series) and len(o) > 1:
        k = list(o.index)
        return o[k[::-1]].copy()
    return None


def perturbed(o):
    """Another valid input of the same shape / labels (values scaled by 1 + 2^-9); None if nothing to change."""
    k = 1.0 + 2.0 ** -9
    if isinstance(o, np.ndarray) and o.dtype.kind == 'f':
        return o * k
    if isinstance(o, (pd.DataFrame, pd.Series)) and all(np.issubdtype(d, np.floating) for d in (o.dtypes if isinstance(o, pd.DataFrame) else [o.dtype])):
        return o * k
    return None


def overwrite(live, new):
    """live <- new in place (same object identity, same buffers where the container allows it)."""
    if isinstance(live, np.ndarray):
        live[...] = new
    elif isinstance(live, pd.Series):
        for lab in new.index:
            live[lab] = new[lab]
    else:
        for c in new.columns:
            live[c] = new[c].values


def anon_index(o, name):
    if isinstance(o, pd.DataFrame) and o.index.name is not None:
        o = o.copy()
        o.index = pd.Index(np.asarray(o.index), name=name)
        return o
    return None


def run_directed(name, calls, seeds, obs):
    out = []

    def bump(k, m=1):
        obs[k] = obs.get(k, 0) + int(m)

    for call in calls:
        for seed in seeds:
            where = f'{name}[{call.label}]'
            ms0 = module_state()
            sd = seed if call.seed_arg is not None else None
            base_args = [clone(a) for a in call.args]
            before = purity.snapshot(base_args)
            try:
                if call.self_obj is not None:
                    obj = call.self_obj()
                    self_before = purity.snapshot(vars(obj))
                    kw = {k: clone(v) for k, v in call.kwargs.items()}
                    if call.seed_arg is not None:
                        kw[call.seed_arg] = sd
                    r1 = call.fn(obj, *base_args, **kw)
                    changed = [p for p in purity.diff(self_before, purity.snapshot(vars(obj))) if p.split('.')[1].split('[')[0] not in call.self_allowed] \
                        if self_before != purity.snapshot(vars(obj)) else []
                    if changed:
                        out.append(vio('self_state_changed', f'{where}: object attributes changed although not documented to: {changed[:4]}'))
                else:
                    _, r1 = invoke(call, base_args, sd)
            except Exception as e:
                out.append(vio('exception', f'{where}: {type(e).__name__}: {e}'))
                break
            bump('purity_checks')
            bump('module_state_checks')
            changed_state = module_state_diff(ms0, module_state())
            if changed_state:
                # NOT an alarm by itself (a correct memo is module-level state too): counted and named in the evidence; whether any result depends on
                # it is decided behaviourally - history replay, re-runs, the poison pass and the thread stress below
                bump('module_state_changes_observed')
            after = purity.snapshot(base_args)
            if before != after:
                ch = purity.diff(before, after)
                # the documented exception: estimate state of EstimationModel arguments of a filter
                ch = [p for p in ch if not (name.startswith('filters.run_') and re.search(r'\.(transform|bias)$', p))]
                ch = [p for p in ch if not PRIVATE.search(p)]
                if ch:
                    out.append(vio('argument_modified', f'{where}: arguments changed by the call at {ch[:4]}'))
            if call.schema is not None:
                bump('schema_checks')
                msg = call.schema(r1)
                if msg:
                    out.append(vio('schema', f'{where}: {msg}'))
            f1 = purity.flatten(r1)
            # determinism: equal inputs, equal integer seed
            if call.compare:
                try:
                    _, r2 = invoke(call, [clone(a) for a in call.args], sd)
                    bump('determinism_checks')
                    bad = purity.compare_flat(f1, purity.flatten(r2), ulp=0)
                    if bad:
                        out.append(vio('not_deterministic', f'{where}: two calls with equal inputs{" and seed " + str(sd) if sd is not None else ""} '
                                       f'differ in {bad[:3]}'))
                    if sd is not None:
                        # Round 6: an integer seed is an integer whatever its type - the element of np.arange(n) a user loops over, a 0-d array
                        for guise in (np.int64(sd), np.int32(sd % (2 ** 31 - 1)), np.uint32(sd % (2 ** 31 - 1))):
                            base = f1
                            if int(guise) != sd:
                                _, rb_ = invoke(call, [clone(a) for a in call.args], int(guise))
                                base = purity.flatten(rb_)
                            _, rg = invoke(call, [clone(a) for a in call.args], guise)
                            bump('numpy_integer_seeds')
                            badg = purity.compare_flat(base, purity.flatten(rg), ulp=0)
                            if badg:
                                out.append(vio('seed_type_dependent', f'{where}: seed {int(guise)} given as {type(guise).__name__} does not reproduce the result of the '
                                               f'same seed given as int: {badg[:3]}'))
                                break
                        _, r3 = invoke(call, [clone(a) for a in call.args], sd + 1)
                        if not purity.compare_flat(f1, purity.flatten(r3), ulp=0):
                            out.append(vio('seed_ignored', f'{where}: different seeds give identical output'))
                except Exception as e:
                    out.append(vio('exception', f'{where} (repeat): {type(e).__name__}: {e}'))
            # filters: second run with the SAME model objects reproduces the result (no state leak)
            if name.startswith('filters.run_') and call.compare:
                same_objs = [clone(a) for a in call.args]
                _, ra = invoke(call, same_objs, sd)
                _, rb = invoke(call, same_objs, sd)
                bump('determinism_checks')
                bad = purity.compare_flat(purity.flatten(ra), purity.flatten(rb), ulp=0)
                if bad:
                    out.append(vio('state_leak_between_runs', f'{where}: re-running with the same model objects differs in {bad[:3]}'))
            # argument forms
            if seed == seeds[0]:
                for form in ('readonly', 'list', 'tuple', 'fortran'):
                    if not call.vary and not call.nd:
                        break
                    if form in ('list', 'tuple') and not call.vary:
                        continue
                    pos = set(call.vary) | (set(call.nd) if form in ('readonly', 'fortran') else set())
                    args = [to_form(a, form) if i in pos and isinstance(a, np.ndarray) else clone(a) for i, a in enumerate(call.args)]
                    snap = purity.snapshot(args)
                    try:
                        _, rf = invoke(call, args, sd)
                    except ValueError as e:
                        if form == 'readonly' and 'read-only' in str(e):
                            out.append(vio('writes_into_argument', f'{where}: writes into its (read-only) argument: {e}'))
                        else:
                            out.append(vio('form_rejected', f'{where}: {form} form of the arguments raised {type(e).__name__}: {e}'))
                        continue
                    except Exception as e:
                        out.append(vio('form_rejected', f'{where}: {form} form of the arguments raised {type(e).__name__}: {e}'))
                        continue
                    if form == 'readonly':
                        bump('readonly_runs')
                    if purity.snapshot(args) != snap:
                        out.append(vio('argument_modified', f'{where}: {form} arguments changed by the call'))
                    if call.compare:
                        bump('form_comparisons')
                        bad = purity.compare_flat(f1, purity.flatten(rf), ulp=call.ulp)
                        if bad:
                            out.append(vio('form_dependent_values', f'{where}: {form} form gives different values: {bad[:3]}'))
                for i in call.table_forms:
                    args = [clone(a) for a in call.args]
                    args[i] = pd.DataFrame(args[i])
                    _, rf = invoke(call, args, sd)
                    bump('form_comparisons')
                    bad = purity.compare_flat([(l, np.asarray(v)) for l, v in f1], [(l.replace('.values', ''), np.asarray(v)) for l, v in purity.flatten(rf)
                                                                                    if not l.endswith('.labels') and not l.endswith('.columns') and not l.endswith('.index')],
                                              ulp=call.ulp)
                    if bad:
                        out.append(vio('form_dependent_values', f'{where}: DataFrame form gives different values: {bad[:3]}'))
                if call.single is not None:
                    sel_a, sel_r = call.single
                    args = [sel_a(np.array(a, copy=True)) if i in call.vary and isinstance(a, np.ndarray) else clone(a) for i, a in enumerate(call.args)]
                    try:
                        _, rs = invoke(call, args, sd)
                        bump('form_comparisons')
                        bad = purity.compare_flat(purity.flatten(sel_r(r1)), purity.flatten(rs), ulp=call.ulp)
                        if bad:
                            out.append(vio('single_vs_stacked', f'{where}: single input differs from the same row of the stacked call: {bad[:3]}'))
                    except Exception as e:
                        out.append(vio('form_rejected', f'{where}: single-row form raised {type(e).__name__}: {e}'))
                out.extend(extra_forms(name, call, sd, where, bump))
    return out


def extra_forms(name, call, sd, where, bump):
    """Further representations of the same input, and one call history, per call specification.

    integer form   array_like arguments holding whole numbers: int64 ndarray and list of Python ints vs the same values as floats
    index names    tables whose time index is unnamed / named otherwise (also: the caller's Index object must keep its name)
    history        f(a1); a1 overwritten IN PLACE with a2's values; f(a1) must equal f(fresh copy of a2) computed beforehand, bit for bit
                   (a cache keyed on object identity, or one that retained a reference to the caller's array, only shows here)
    """
    out = []
    # ---- integer-valued inputs: int dtype / list of ints vs float dtype
    pos = [i for i in call.vary if i not in call.no_int and isinstance(call.args[i], np.ndarray) and call.args[i].dtype.kind == 'f']
    if pos and call.compare:
        fl = [np.rint(a) if i in pos else clone(a) for i, a in enumerate(call.args)]
        try:
            _, rfl = invoke(call, [clone(a) for a in fl], sd)
        except Exception:
            rfl = None              # whole numbers are not a valid input for this call (nothing to compare)
        if rfl is not None:
            for form in ('int64', 'intlist'):
                args = [(np.rint(a).astype(np.int64) if form == 'int64' else np.rint(a).astype(np.int64).tolist()) if i in pos else clone(a) for i, a in enumerate(call.args)]
                try:
                    _, ri = invoke(call, args, sd)
                    bump('integer_form_comparisons')
                    bad = purity.compare_flat(purity.flatten(rfl), purity.flatten(ri), ulp=call.ulp)
                    if bad:
                        out.append(vio('form_dependent_values', f'{where}: whole numbers passed as {"an int64 array" if form == "int64" else "a list of ints"} give '
                                       f'different values than the same numbers as floats: {bad[:3]}'))
                except Exception as e:
                    out.append(vio('form_rejected', f'{where}: integer-typed form raised {type(e).__name__}: {e}'))
    # ---- a stack of ONE point (shape (1, k)): neither the single nor the general stacked path
    if call.single is not None and call.compare:
        try:
            _, r_all = invoke(call, [clone(a) for a in call.args], sd)
            args = [np.array(a[:1], copy=True) if i in call.vary and isinstance(a, np.ndarray) and a.ndim >= 1 else clone(a) for i, a in enumerate(call.args)]
            _, r_one = invoke(call, args, sd)
            first = (lambda r: tuple(np.asarray(x)[:1] for x in r)) if isinstance(r_all, tuple) else (lambda r: np.asarray(r)[:1])
            bump('stack_of_one_runs')
            bad = purity.compare_flat(purity.flatten(first(r_all)), purity.flatten(r_one if not isinstance(r_one, tuple) else tuple(np.asarray(x) for x in r_one)), ulp=call.ulp)
            if bad:
                out.append(vio('single_vs_stacked', f'{where}: a stack holding one point gives something else than the first row of the full stack: {bad[:3]}'))
        except Exception as e:
            out.append(vio('form_rejected', f'{where}: a stack holding one point raised {type(e).__name__}: {e}'))
    # ---- batch length: every prefix of the stack (lengths 1, 2, 3, 4, 5, 8, 9, 16, 17, n - 1) gives the prefix of the full result - first and last
    # elements included (a vectorised tail, a parity-dependent path, an off-by-one at the end of the batch)
    stackpos = [i for i in call.vary if isinstance(call.args[i], np.ndarray) and call.args[i].ndim >= 1]
    if call.single is not None and call.compare and stackpos and len({len(call.args[i]) for i in stackpos}) == 1:
        N_ = len(call.args[stackpos[0]])
        try:
            _, r_all = invoke(call, [clone(a) for a in call.args], sd)
            cut = (lambda r, m: tuple(np.asarray(x)[:m] for x in r)) if isinstance(r_all, tuple) else (lambda r, m: np.asarray(r)[:m])
            full_ok = (all(len(np.asarray(x)) == N_ for x in r_all) if isinstance(r_all, tuple) else len(np.asarray(r_all)) == N_)
            for m_ in [m for m in (1, 2, 3, 4, 5, 8, 9, 16, 17, N_ - 1) if 0 < m < N_] if full_ok else []:
                args = [np.array(a[:m_], copy=True) if i in stackpos else clone(a) for i, a in enumerate(call.args)]
                _, r_m = invoke(call, args, sd)
                bump('batch_prefix_runs')
                bad = purity.compare_flat(purity.flatten(cut(r_all, m_)), purity.flatten(r_m if not isinstance(r_m, tuple) else tuple(np.asarray(x) for x in r_m)), ulp=call.ulp)
                if bad:
                    out.append(vio('batch_length_dependent', f'{where}: the first {m_} points alone give something else than the first {m_} rows of the stack of {N_}: {bad[:3]}'))
                    break
        except Exception as e:
            out.append(vio('form_rejected', f'{where}: a shorter stack raised {type(e).__name__}: {e}'))
    # ---- one number in its Python / numpy guises: float, numpy.float64, 0-d array, 1-element array, int where it is whole
    if (name.startswith('earth.') or name in ('transform.mat_en_from_ll', 'util.to_180_range')) and call.compare and call.vary and \
            all(isinstance(call.args[i], np.ndarray) and call.args[i].ndim == 1 for i in call.vary):
        try:
            _, r_all = invoke(call, [clone(a) for a in call.args], sd)
            row0 = purity.flatten(tuple(np.asarray(x)[0] for x in r_all) if isinstance(r_all, tuple) else np.asarray(r_all)[0])
            for guise, conv in (('float', lambda v: float(v)), ('numpy.float64', lambda v: np.float64(v)), ('0-d array', lambda v: np.array(float(v))),
                                ('1-element array', lambda v: np.array([float(v)])), ('1-element list', lambda v: [float(v)])):
                args = [conv(a[0]) if i in call.vary else clone(a) for i, a in enumerate(call.args)]
                _, r_g = invoke(call, args, sd)
                bump('scalar_guise_runs')
                g = tuple(np.asarray(x).reshape(np.asarray(x).shape[1:] if guise.startswith('1-element') else np.asarray(x).shape) for x in r_g) if isinstance(r_g, tuple) \
                    else (np.asarray(r_g)[0] if guise.startswith('1-element') else np.asarray(r_g))
                bad = purity.compare_flat(row0, purity.flatten(g), ulp=call.ulp)
                if bad:
                    out.append(vio('form_dependent_values', f'{where}: the single point given as {guise} gives something else than row 0 of the stacked call: {bad[:3]}'))
        except Exception as e:
            out.append(vio('form_rejected', f'{where}: a scalar guise raised {type(e).__name__}: {e}'))
    # ---- label-addressed tables with their columns in another order
    if call.labelled and call.compare:
        prng = np.random.Generator(np.random.PCG64(len(where)))
        args = [permute_labels(a, prng) if i in call.labelled else None for i, a in enumerate(call.args)]
        if any(a is not None for a in args):
            args = [clone(b) if a is None else a for a, b in zip(args, call.args)]
            try:
                _, r0 = invoke(call, [clone(a) for a in call.args], sd)
                _, rp = invoke(call, args, sd)
                bump('permuted_column_runs')
                if name.startswith('filters.run_') and isinstance(r0, tuple):
                    r0, rp = r0[0], rp[0]          # (tables, schema verdict): the order of result columns follows the input's
                bad = purity.compare_flat(purity.flatten(canon(r0)), purity.flatten(canon(rp)), ulp=call.ulp)
                if bad:
                    out.append(vio('form_dependent_values', f'{where}: the same labelled tables with their columns in another order give different values: {bad[:3]}'))
            except Exception as e:
                out.append(vio('form_rejected', f'{where}: labelled tables with permuted columns raised {type(e).__name__}: {e}'))
    # ---- index names
    for nm_ in (None, 'gps_time'):
        args = [anon_index(a, nm_) for a in call.args]
        if all(a is None for a in args):
            break
        args = [clone(b) if a is None else a for a, b in zip(args, call.args)]
        shared = {}
        for i, a in enumerate(args):                   # several tables of one call built on ONE Index object, as user code does
            if isinstance(a, pd.DataFrame) and a.index.name == nm_:
                key = (len(a), float(a.index[0]) if len(a) else 0.0, float(a.index[-1]) if len(a) else 0.0)
                if key in shared and a.index.equals(shared[key]):
                    a.index = shared[key]
                else:
                    shared[key] = a.index
        snap = purity.snapshot(args)
        names_before = [a.index.name for a in args if isinstance(a, pd.DataFrame)]
        try:
            _, rn = invoke(call, args, sd)
        except Exception as e:
            out.append(vio('form_rejected', f'{where}: tables with index name {nm_!r} raised {type(e).__name__}: {e}'))
            continue
        bump('index_name_runs')
        if purity.snapshot(args) != snap or names_before != [a.index.name for a in args if isinstance(a, pd.DataFrame)]:
            ch = purity.diff(snap, purity.snapshot(args))
            ch = [p for p in ch if not (name.startswith('filters.run_') and re.search(r'\.(transform|bias)$', p))]
            ch = [p for p in ch if not PRIVATE.search(p)]
            if ch:
                out.append(vio('argument_modified', f'{where}: tables with index name {nm_!r}: arguments changed by the call at {ch[:4]} '
                               f'(index names {names_before} -> {[a.index.name for a in args if isinstance(a, pd.DataFrame)]})'))
    # ---- one call history on long-lived argument objects
    stateful = call.self_obj is not None and call.self_allowed
    if call.history and call.compare and not stateful and not name.startswith('filters.run_'):
        a2 = [perturbed(a) for a in call.args]
        if any(x is not None for x in a2):
            try:
                target = [clone(b) if x is None else x for x, b in zip(a2, call.args)]
                obj = call.self_obj() if call.self_obj is not None else None
                kw = lambda: dict({k: clone(v) for k, v in call.kwargs.items()}, **({call.seed_arg: sd} if call.seed_arg is not None else {}))    # noqa: E731
                run = (lambda args: call.fn(obj, *args, **kw())) if obj is not None else (lambda args: call.fn(*args, **kw()))
                ref = purity.flatten(run([clone(a) for a in target]))
                live = [clone(a) for a in call.args]
                run(live)
                for lv, x in zip(live, a2):
                    if x is not None:
                        overwrite(lv, x)
                got = purity.flatten(run(live))
                bump('history_replays')
                bad = purity.compare_flat(ref, got, ulp=0)
                if bad:
                    out.append(vio('history_dependent_result', f'{where}: after a call, its argument objects were overwritten in place and the call repeated: '
                                   f'the result differs from a call with fresh copies of the same values in {bad[:3]} (state carried between calls)'))
            except Exception as e:
                out.append(vio('exception', f'{where} (history replay): {type(e).__name__}: {e}'))
    return out


# ------------------------------------------------------------------ behavioural monitors for shared state
def _plain_function_calls(S):
    """(name, call) for every specification of a module-level FUNCTION (not a method, not seeded, no bound object): such a function
    owns nothing the caller could legitimately change through what it was handed back."""
    out = []
    for name, calls in S.items():
        if name.count('.') != 1 or name.startswith('filters.') or 'smooth' in name:
            continue
        for c in calls:
            if c.self_obj is None and c.compare and c.seed_arg is None and inspect.isfunction(c.fn) and getattr(c.fn, '__module__', '').startswith('pyins'):
                out.append((f'{name}[{c.label}]', c))
                if c.single is not None:           # the single-point path of the same function (its own branch in most of them)
                    one = Call(c.label + '/single', c.fn, [c.single[0](np.array(a, copy=True)) if i in c.vary and isinstance(a, np.ndarray) else clone(a)
                                                          for i, a in enumerate(c.args)], kwargs=c.kwargs)
                    out.append((f'{name}[{one.label}]', one))
                elif (name.startswith('earth.') or name == 'transform.mat_en_from_ll') and c.vary and all(isinstance(c.args[i], np.ndarray) and c.args[i].ndim == 1 for i in c.vary):
                    one = Call(c.label + '/scalar', c.fn, [float(a[0]) if i in c.vary else clone(a) for i, a in enumerate(c.args)], kwargs=c.kwargs)
                    out.append((f'{name}[{one.label}]', one))
    return out


def run_poison(case):
    """Cross-function state through returned arrays: reference results of every module-level function first; then every function is
    called and the caller overwrites whatever arrays it got back; then every function is called once more with equal arguments and
    must reproduce its reference bit for bit.  (A memo whose entries are handed out uncopied - to the same or to ANOTHER function -
    answers the last round with the caller's scribbles.  A memo that hands out copies passes.)"""
    rng = np.random.Generator(np.random.PCG64(case['seed']))
    calls = _plain_function_calls(specs(rng))
    out, obs = [], {}
    ref = {}
    try:
        for nm, c in calls:
            ref[nm] = purity.flatten(clone_result(c.fn(*[clone(a) for a in c.args], **{k: clone(v) for k, v in c.kwargs.items()})))
        order = list(rng.permutation(len(calls)))
        for i in order:
            nm, c = calls[i]
            r = c.fn(*[clone(a) for a in c.args], **{k: clone(v) for k, v in c.kwargs.items()})
            obs['returned_arrays_overwritten'] = obs.get('returned_arrays_overwritten', 0) + scribble(r)
        for i in list(rng.permutation(len(calls))):
            nm, c = calls[i]
            got = purity.flatten(c.fn(*[clone(a) for a in c.args], **{k: clone(v) for k, v in c.kwargs.items()}))
            obs['poison_comparisons'] = obs.get('poison_comparisons', 0) + 1
            bad = purity.compare_flat(ref[nm], got, ulp=0)
            if bad and len(out) < 6:
                out.append(vio('result_depends_on_callers_writes', f'{nm}: after callers overwrote the arrays that the module-level functions had returned to them, the same call '
                               f'returns different values in {bad[:3]}: some function hands out an array that it (or another function) keeps using'))
    except Exception as e:
        import traceback
        out.append(vio('exception', f'poison pass: {type(e).__name__}: {e}', tb=traceback.format_exc()[-800:]))
    return dict(violations=out, obs=obs, nontrivial=True, evals=max(1, obs.get('poison_comparisons', 0)), nontrivial_count=max(1, obs.get('poison_comparisons', 0)),
                sample=dict(cls='poison', functions=len(calls)))


def clone_result(o):
    import copy
    return copy.deepcopy(o)


def scribble(o):
    n = 0
    if isinstance(o, np.ndarray):
        if o.dtype.kind == 'f' and o.flags.writeable and o.size:
            o[...] = -777.25
            n += 1
    elif isinstance(o, (pd.DataFrame, pd.Series)):
        try:
            v = o.values
            if isinstance(v, np.ndarray) and v.dtype.kind == 'f' and v.flags.writeable and v.size:
                v[...] = -777.25
                n += 1
        except Exception:
            pass
    elif isinstance(o, dict):
        for v in o.values():
            n += scribble(v)
    elif isinstance(o, (list, tuple)):
        for v in o:
            n += scribble(v)
    return n


def run_threads(case):
    """Re-entrancy: the module-level functions are called from several threads at once (switch interval 1 us), each thread with its own
    argument copies; every result must equal the sequential reference bit for bit.  A scratch buffer or any other module-level
    working state shared between calls only shows under such an interleaving."""
    import sys
    import threading
    rng = np.random.Generator(np.random.PCG64(case['seed']))
    S = specs(rng)
    calls = [(nm, c) for nm, c in _plain_function_calls(S) if not nm.startswith('sim.')]
    # two argument sets per function (the second with scaled values), so that concurrent calls of one function differ
    work = []
    for nm, c in calls:
        a1 = [clone(a) for a in c.args]
        a2 = [b if (b := perturbed(a)) is not None else clone(a) for a in c.args]
        for tag, a in (('a', a1), ('b', a2)):
            try:
                work.append((nm + tag, c, a, purity.flatten(clone_result(c.fn(*[clone(x) for x in a], **c.kwargs)))))
            except Exception:
                pass
    out, obs = [], {}
    bad_log = []
    lock = threading.Lock()
    n_threads, rounds = 4, (30 if len(work) else 0)
    old = sys.getswitchinterval()
    sys.setswitchinterval(1e-6)

    def worker(k):
        lrng = np.random.Generator(np.random.PCG64(case['seed'] * 10 + k))
        for _ in range(rounds):
            for i in lrng.permutation(len(work)):
                nm, c, a, ref = work[i]
                try:
                    got = purity.flatten(c.fn(*[clone(x) for x in a], **c.kwargs))
                    bad = purity.compare_flat(ref, got, ulp=0)
                except Exception as e:
                    bad = [f'{type(e).__name__}: {e}']
                with lock:
                    obs['concurrent_calls_compared'] = obs.get('concurrent_calls_compared', 0) + 1
                    if bad and len(bad_log) < 6:
                        bad_log.append((nm, bad[:2]))
    # second phase (round 6: the random mix above met a shared scratch buffer only once in a run on a loaded machine): all threads hammer ONE
    # function at a time, half of them with the first argument set and half with the second, released together by a barrier
    by_fn = {}
    for w_ in work:
        by_fn.setdefault(w_[0][:-1], []).append(w_)
    focus = [v for v in by_fn.values() if len(v) == 2]

    def hammer(k, barrier):
        for pair in focus:
            nm, c, a, ref = pair[k % 2]
            try:
                barrier.wait(timeout=60)
            except threading.BrokenBarrierError:
                return
            for _ in range(12):
                try:
                    got = purity.flatten(c.fn(*[clone(x) for x in a], **c.kwargs))
                    bad = purity.compare_flat(ref, got, ulp=0)
                except Exception as e:
                    bad = [f'{type(e).__name__}: {e}']
                with lock:
                    obs['concurrent_calls_compared'] = obs.get('concurrent_calls_compared', 0) + 1
                    obs['focused_concurrent_calls'] = obs.get('focused_concurrent_calls', 0) + 1
                    if bad and len(bad_log) < 6:
                        bad_log.append((nm, bad[:2]))
    try:
        ts = [threading.Thread(target=worker, args=(k,)) for k in range(n_threads)]
        for t in ts:
            t.start()
        for t in ts:
            t.join()
        barrier = threading.Barrier(n_threads)
        ts = [threading.Thread(target=hammer, args=(k, barrier)) for k in range(n_threads)]
        for t in ts:
            t.start()
        for t in ts:
            t.join()
    finally:
        sys.setswitchinterval(old)
    for nm, bad in bad_log:
        out.append(vio('not_reentrant', f'{nm[:-1]}: called from {n_threads} threads at once (own argument copies each) a result differs from the sequential one in {bad}: '
                       f'the function keeps working state that is shared between calls'))
    return dict(violations=out, obs=obs, nontrivial=True, evals=max(1, obs.get('concurrent_calls_compared', 0)), nontrivial_count=max(1, obs.get('concurrent_calls_compared', 0)),
                sample=dict(cls='threads', functions=len(calls), threads=n_threads, rounds=rounds))


# ------------------------------------------------------------------ ambient sanitizer
AMBIENT = {'violations': [], 'calls': 0, 'on': False, 'depth': 0}


def install_ambient():
    import importlib
    names = enumerate_public()
    for nm in names:
        if nm in EXCLUDED:
            continue
        parts = nm.split('.')
        mod = importlib.import_module('pyins.' + parts[0])
        if len(parts) == 2:
            o = getattr(mod, parts[1])
            if inspect.isclass(o):
                continue
            patch.wrap(mod, parts[1], around=_mk_around(nm, is_method=False), counter='amb_' + nm)
        else:
            cls = getattr(mod, parts[1])
            raw = vars(cls)[parts[2]]
            if isinstance(raw, (classmethod, staticmethod)):
                continue
            patch.wrap(cls, parts[2], around=_mk_around(nm, is_method=True), counter='amb_' + nm)


def _mk_around(nm, is_method):
    def around(fn, args, kwargs):
        if not AMBIENT['on']:
            return fn(*args, **kwargs)
        check = args[1:] if is_method else args
        # a RandomState handed in by the caller is consumed by design; Parameters objects keep their rng and the documented data_frame
        check = ['<RandomState>' if isinstance(a, np.random.RandomState) else a for a in check]
        kw = {k: ('<RandomState>' if isinstance(v, np.random.RandomState) else v) for k, v in kwargs.items()}
        before = purity.snapshot([list(check), kw])
        result = fn(*args, **kwargs)
        after = purity.snapshot([list(check), kw])
        AMBIENT['calls'] += 1
        if before != after:
            ch = purity.diff(before, after)
            ch = [p for p in ch if not (nm.startswith('filters.run_') and re.search(r'\.(transform|bias)$', p))]
            ch = [p for p in ch if not re.search(r'\.(rng|data_frame)$', p) and not PRIVATE.search(p)]
            if ch and len(AMBIENT['violations']) < 10:
                AMBIENT['violations'].append(vio('argument_modified', f'ambient: {nm} changed its arguments at {ch[:4]}'))
        return result
    return around


# ------------------------------------------------------------------ check interface
def setup():
    patch.import_all()
    fixtures()


def cases(seed, tier):
    names = enumerate_public()
    out = []
    seeds = [int(seed) * 100 + k for k in range(3)]
    groups = {}
    for nm in names:
        groups.setdefault(nm.split('.')[0], []).append(nm)
    for nm in names:
        heavy = nm.startswith('filters.') or 'smooth' in nm or 'generate_imu' in nm
        out.append(dict(cls='directed', name=nm, seeds=seeds, cost=30 if heavy else 1))
    na = 16 if tier == 'quick' else 160
    for i in range(na):
        out.append(dict(cls='ambient', kind=['feedback', 'feedforward', 'history', 'sim'][i % 4], seed=int(seed) * 1000003 + i, cost=25))
    for i in range(2 if tier == 'quick' else 12):
        out.append(dict(cls='poison', seed=int(seed) * 100 + 50 + i, cost=120))
        out.append(dict(cls='threads', seed=int(seed) * 100 + 70 + i, cost=120))
        out.append(dict(cls='order', seed=int(seed) * 100 + 90 + i, cost=120))
    if tier == 'thorough':
        out.append(dict(cls='ambient', kind='testsuite', seed=0, cost=4000))
    return out


def run_case(case):
    obs = {}
    if case['cls'] == 'directed':
        nm = case['name']
        obs['callables_enumerated'] = 1
        if nm in EXCLUDED:
            obs['callables_excluded'] = 1
            return dict(violations=[], obs=obs, nontrivial=False, sample=dict(name=nm, excluded=EXCLUDED[nm]))
        rng = np.random.Generator(np.random.PCG64(case['seeds'][0]))
        S = specs(rng)
        if nm not in S:
            return dict(violations=[], obs=obs, nontrivial=False, inconclusive=f'public callable {nm} has no call specification')
        obs['callables_with_spec'] = 1
        out = run_directed(nm, S[nm], case['seeds'], obs)
        nforms = obs.get('form_comparisons', 0) + obs.get('determinism_checks', 0) + obs.get('purity_checks', 0)
        return dict(violations=out, obs=obs, nontrivial=True, evals=max(1, nforms), nontrivial_count=max(1, nforms),
                    sample=dict(name=nm, specs=[c.label for c in S[nm]], checks=dict(obs)))
    if case['cls'] == 'poison':
        return run_poison(case)
    if case['cls'] == 'threads':
        return run_threads(case)
    if case['cls'] == 'order':
        return run_order(case)
    # ambient
    if not AMBIENT.get('installed'):
        install_ambient()
        AMBIENT['installed'] = True
    AMBIENT['violations'].clear()
    AMBIENT['calls'] = 0
    AMBIENT['on'] = True
    out = []
    ms0 = module_state()
    try:
        kind = case['kind']
        if kind in ('feedback', 'feedforward'):
            from rv.workloads import schedules
            from pyins import filters, sim
            S = schedules.build(case['seed'])
            traj = S['traj']
            if kind == 'feedback':
                filters.run_feedback_filter(traj.iloc[0], 5, 1, 0.5, 1.0, S['increments'], S['gyro_model'], S['accel_model'],
                                            measurements=S['measurements'], time_step=S['time_step'], with_altitude=S['with_altitude'])
            else:
                filters.run_feedforward_filter(traj, traj * 1.0, 5, 1, 0.5, 1.0, S['gyro_model'], S['accel_model'], measurements=S['measurements'],
                                               increments=S['increments'], time_step=S['time_step'], with_altitude=S['with_altitude'])
        elif kind == 'history':
            from rv.workloads import integrator_histories as H
            H.OBS.clear()
            o, _ = H.run_history(dict(seed=case['seed'], with_altitude=case['seed'] % 2 == 0, initial_size=5, n_inc=60),
                                 two_d_monitors=case['seed'] % 2 == 1)
            out.extend(o)
        elif kind == 'sim':
            from pyins import sim, strapdown, transform, error_model
            rng = np.random.Generator(np.random.PCG64(case['seed']))
            tr, imu = sim.generate_sine_velocity_motion(0.05, 8, [rng.uniform(-70, 70), rng.uniform(-180, 180), 100.], [3., 2, 0], [1., 1, 0.2], 7,
                                                        sensor_type=str(rng.choice(['rate', 'increment'])))
            inc = strapdown.compute_increments_from_imu(imu, 'rate')
            I = strapdown.Integrator(tr.iloc[0])
            I.integrate(inc)
            transform.compute_state_difference(I.trajectory, tr)
            error_model.propagate_errors(tr, sim.generate_pva_error(1, 1, 0.1, 0.1, int(case['seed'] % 1000)))
        elif kind == 'testsuite':
            import pytest
            import os
            from rv.core import REPO
            rc = pytest.main(['-q', '-x', '-p', 'no:cacheprovider', '--deselect', 'pyins/tests/test_sim.py::test_Turntable',
                              os.path.join(REPO, 'pyins', 'tests')])
            obs['testsuite_rc'] = int(rc)
            if int(rc) != 0:
                out.append(vio('testsuite_under_monitors', f'the repository test-suite failed (rc={int(rc)}) with the purity wrappers installed'))
    except Exception as e:
        import traceback
        out.append(vio('exception', f'ambient {case["kind"]}: {type(e).__name__}: {e}', tb=traceback.format_exc()[-1200:]))
    finally:
        AMBIENT['on'] = False
    out.extend(AMBIENT['violations'])
    ch = module_state_diff(ms0, module_state())
    obs['module_state_checks'] = 1
    if ch:
        obs['module_state_changes_observed'] = 1          # evidence only, see run_directed
    obs['ambient_calls_checked'] = AMBIENT['calls']
    return dict(violations=out, obs=obs, nontrivial=True, evals=max(1, AMBIENT['calls']), nontrivial_count=max(1, AMBIENT['calls']),
                sample=dict(kind=case['kind'], seed=case['seed'], public_calls_observed=AMBIENT['calls']))


# ------------------------------------------------------------------ call order across processes
def order_hashes(seed, reverse):
    """sha256 of the flattened result of every module-level function specification (incl. the smoothing functions), evaluated in registry order or in
    the reverse order.  Equal inputs must give bit-identical results whatever was called before - in particular in another process with another order
    (a memo whose key is too coarse answers with what an EARLIER call with other arguments left behind: deterministic within one process, order
    dependent across them)."""
    import hashlib
    rng = np.random.Generator(np.random.PCG64(seed))
    S = specs(rng)
    calls = []
    for name, cs in S.items():
        if name.count('.') != 1 or name.startswith('filters.'):
            continue
        for c in cs:
            if c.self_obj is None and c.compare and c.seed_arg is None and inspect.isfunction(c.fn) and getattr(c.fn, '__module__', '').startswith('pyins'):
                calls.append((f'{name}[{c.label}]', c))
    if reverse:
        calls = calls[::-1]
    out = {}
    for nm, c in calls:
        try:
            r = c.fn(*[clone(a) for a in c.args], **{k: clone(v) for k, v in c.kwargs.items()})
            h = hashlib.sha256()
            for lab, v in purity.flatten(r):
                h.update(lab.encode())
                h.update(np.ascontiguousarray(v).tobytes() if isinstance(v, np.ndarray) else repr(v).encode())
            out[nm] = h.hexdigest()
        except Exception as e:
            out[nm] = f'EXC {type(e).__name__}'
    return out


def run_order(case):
    import json
    import subprocess
    import sys
    from rv.core import ROOT
    fwd = order_hashes(case['seed'], False)
    r = subprocess.run([sys.executable, '-W', 'ignore', '-m', 'rv.checks.C19', str(case['seed'])], cwd=ROOT, capture_output=True, text=True, timeout=1800)
    try:
        rev = json.loads(r.stdout.strip().splitlines()[-1])
    except Exception:
        return dict(violations=[], obs={}, nontrivial=False, inconclusive=f'order subprocess failed rc={r.returncode}: {(r.stderr or r.stdout)[-300:]}')
    out = []
    bad = sorted(k for k in fwd if k in rev and fwd[k] != rev[k])
    for k in bad[:5]:
        out.append(vio('call_order_dependent', f'{k}: the result for equal inputs differs (bitwise) between this process, where the registry was evaluated in order, and a '
                       f'fresh process that evaluated it in the reverse order: state left behind by earlier calls with OTHER arguments reaches the result'))
    obs = dict(order_comparisons=len([k for k in fwd if k in rev]))
    return dict(violations=out, obs=obs, nontrivial=True, evals=max(1, obs['order_comparisons']), nontrivial_count=max(1, obs['order_comparisons']),
                sample=dict(cls='order', functions=len(fwd)))


if __name__ == '__main__':
    import json
    import sys
    import warnings
    warnings.filterwarnings('ignore')
    patch.import_all()
    print(json.dumps(order_hashes(int(sys.argv[1]), True)))
