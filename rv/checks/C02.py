"""C02 - integrator result is independent of call history (chunks, predict, restart).

Random call histories on the real strapdown.Integrator (tiny initial capacities so
that buffer growth is crossed constantly) under the monitors of
rv.workloads.integrator_histories: executable model (fresh integrator, single
call) compared bitwise after every integrate, predict/return-value/time-index
postconditions, class invariant after every public method, kernel-boundary
contract on the compiled integrate, and the same histories re-run in numba's
bounds-checking build (NUMBA_BOUNDSCHECK=1, the sanitizer build of the kernel).
"""
import json
import os
import subprocess
import sys

from rv.core import vio, ROOT
from rv.instrument import patch
from rv.workloads import integrator_histories as H

ID = 'C02'
RULE = ('seeded random histories of integrate(chunk)/predict/get_pva/get_time/set_pva over random increments tables '
        '(20..400 rows, irregular dt; class long: 2200..4000 rows with chunks of 1..1500 rows), initial buffer capacity 2..64 (long: up to 10000; class huge: one call of 1.06..3.7 million rows on the default capacity against the same rows in chunks; class repeated_stamps: tables with dt = 0 rows, chunks ending right before them), chunk sizes 0..n aimed at the capacity boundary '
        '(ending exactly at capacity, one short, one over, > 2x capacity), both altitude modes; a share of the histories '
        'is re-run in a NUMBA_BOUNDSCHECK=1 subprocess; non-trivial = history with more than one integrate call or any '
        'predict/set_pva (the tests use exactly one integrate call); distinct = generator parameters'
        ' Round 4: class vertical - pitch exactly +-90 on every row (stationary, Earth-rate-consistent readings) with set_pva relabelling the same physical attitude under another heading; set_pva with the labels of the state in another order.'
        ' Round 5: predict with an increment that is zero in every column (stamped with the current time); supplied states with angles a turn off (heading 0..360); with_altitude as numpy.bool_.')
ASSUMPTIONS = ['Euler-angle extraction gives the same bits for an element whatever the batch length (probed at start-up; '
               'if not, the run is inconclusive)', 'in 2-D histories the states given to set_pva have VD = 0 (non-zero VD is C13)']
REQUIRED_OBS = ['predict_with_zero_increment', 'supplied_states_with_unwrapped_angles', 'set_pva_with_permuted_labels', 'set_pva_angles_kept', 'tables_with_permuted_columns', 'model_comparisons', 'predict_calls', 'set_pva_calls', 'growth_events', 'empty_chunks', 'kernel_calls',
                'invariant_evaluations', 'chunks_ending_exactly_at_capacity', 'predict_when_full', 'boundscheck_histories',
                'index_conservation_checked', 'stale_return_checked', 'histories_at_gimbal_lock', 'set_pva_at_gimbal_lock', 'histories_with_repeated_stamps', 'chunks_ending_before_repeated_stamp', 'huge_single_calls']
REQUIRED_CLASSES = {'all': ['3d', '2d', 'long', 'boundscheck', 'repeated_stamps', 'huge', 'vertical']}
STATE = {}


def setup():
    patch.import_all()
    H.install_kernel_contract()
    STATE['euler_ok'] = H.euler_batch_probe()


def cases(seed, tier):
    n = 1200 if tier == 'quick' else 30000
    nb = 4 if tier == 'quick' else 32
    per = 60 if tier == 'quick' else 400
    out = []
    for i in range(n):
        out.append(dict(seed=int(seed) * 1000003 + i, cls='3d' if i % 2 == 0 else '2d', with_altitude=i % 2 == 0,
                        initial_size=2 + (i * 7) % 63, n_inc=20 + (i * 37) % 181 if i % 10 else 400, cost=1))
    # long histories: chunks of a thousand rows and more (a per-call row counter, periodic re-normalisation or any other
    # "every N rows" logic keyed to the call instead of the trajectory only shows there)
    nl = 16 if tier == 'quick' else 300
    for i in range(nl):
        out.append(dict(seed=int(seed) * 1000003 + 400000 + i, cls='long', with_altitude=i % 2 == 0, initial_size=[64, 1000, 10000, 257][i % 4],
                        n_inc=2200 + 450 * (i % 5), long=True, cost=40))
    # increments tables with repeated stamps (rows with dt = 0 that still carry increments)
    nr = 150 if tier == 'quick' else 4000
    for i in range(nr):
        out.append(dict(seed=int(seed) * 1000003 + 600000 + i, cls='repeated_stamps', with_altitude=i % 2 == 0, initial_size=2 + (i * 7) % 63,
                        n_inc=20 + (i * 37) % 181, repeats=True, cost=1))
    # sustained gimbal lock (pitch exactly +-90 on every row) with set_pva relabelling the heading
    for i in range(60 if tier == 'quick' else 1500):
        out.append(dict(seed=int(seed) * 1000003 + 650000 + i, cls='vertical', with_altitude=i % 2 == 0, initial_size=2 + (i * 7) % 63, n_inc=20 + (i * 37) % 90, vertical=True, cost=2))
    # single calls of more than a million rows on the default capacity (growth-step logic, 32-bit counters, ...)
    for i in range(1 if tier == 'quick' else 6):
        out.append(dict(seed=int(seed) * 1000003 + 700000 + i, cls='huge', with_altitude=i % 2 == 0,
                        n_inc=int(1.06e6 + 4e4 * ((seed + i) % 5)) if i < 3 else int(2.2e6 + 3e5 * i), cost=400))
    for b in range(nb):
        out.append(dict(seed=int(seed) * 1000003 + 500000 + b * per, cls='boundscheck', count=per, cost=per * 1.5))
    return out


def run_case(case):
    H.OBS.clear()
    if case['cls'] == 'boundscheck':
        # the sanitizer build: same driver, compiled kernel with bounds checks, in its own process
        env = dict(os.environ, NUMBA_BOUNDSCHECK='1')
        spec = json.dumps(case)
        r = subprocess.run([sys.executable, '-W', 'ignore', '-m', 'rv.checks.C02', spec], env=env, cwd=ROOT,
                           capture_output=True, text=True, timeout=3000)
        try:
            d = json.loads(r.stdout.strip().splitlines()[-1])
        except Exception:
            return dict(violations=[], obs={}, nontrivial=False,
                        inconclusive=f'bounds-check subprocess failed rc={r.returncode}: {(r.stderr or r.stdout)[-400:]}')
        obs = d['obs']
        obs['boundscheck_histories'] = d['n']
        return dict(violations=d['violations'], obs=obs, nontrivial=True, evals=d['n'], nontrivial_count=d['n'],
                    sample=dict(cls='boundscheck', histories=d['n'], NUMBA_BOUNDSCHECK=d['flag']))
    if not STATE.get('euler_ok', True):
        return dict(violations=[], obs={}, nontrivial=False,
                    inconclusive='Euler extraction is batch-length dependent on this platform: attitude columns not comparable bitwise')
    out, sample = H.run_huge(case) if case['cls'] == 'huge' else H.run_history(case)
    return dict(violations=out, obs=dict(H.OBS), nontrivial=sample['ops'] > 1, sample=sample)


def _boundscheck_main(spec):
    import warnings
    warnings.filterwarnings('ignore')
    import numba
    case = json.loads(spec)
    # no kernel-boundary contract here: an out-of-range access must be caught by the bounds-checking build itself
    patch.import_all()
    STATE['euler_ok'] = H.euler_batch_probe()
    vs = []
    total = {}
    for j in range(case['count']):
        H.OBS.clear()
        c = dict(seed=case['seed'] + j, with_altitude=j % 2 == 0, initial_size=2 + (j * 5) % 40, n_inc=20 + (j * 13) % 120)
        out, sample = H.run_history(c)
        for v in out:
            v = dict(v)
            v['message'] = f'[NUMBA_BOUNDSCHECK build, sub-history {c}] ' + v['message']
            vs.append(v)
        for k, v in H.OBS.items():
            total[k] = total.get(k, 0) + v
    print(json.dumps(dict(violations=vs[:10], obs=total, n=case['count'], flag=bool(numba.config.BOUNDSCHECK))))


if __name__ == '__main__':
    _boundscheck_main(sys.argv[1])
