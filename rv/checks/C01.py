"""C01 - strapdown integration converges to the true navigation solution.

Monitor: reference-model postcondition on the real pipeline
compute_increments_from_imu -> Integrator.integrate, fed with the exact IMU signal
of an analytic truth motion (rv.oracles.truth_motion) sampled at interval h and
h/2 (h/4 in thorough): per channel (position in metres, velocity, attitude as the
rotation angle of C_ins C_true^T)

    err(h) <= 6 * max |y(h) - y(h/2)| + floor        (no error component that does not vanish with h)
    err(h/2) <= 0.9 * err(h)    while above the floor (it actually shrinks)

with floor = N_steps * eps * scale * cosh(T sqrt(2 g / R)) (rounding amplified by
the unstable vertical channel exactly as truncation is).
"""
import numpy as np
import pandas as pd

from rv.core import vio
from rv.instrument import patch
from rv.oracles import truth_motion as TM
from rv.oracles import wgs84 as W
from rv.workloads import forms

ID = 'C01'
RULE = ('seeded analytic truth motions stratified over hemisphere (N/S x E/W incl. the +-180 seam), altitude -500..20000 m, speed '
        '0..300 m/s (slow and fast bands), 3-axis attitude sinusoids with a 90-degree phase pair (coning), rates to ~3 rad/s, forces to '
        '~2 g; rate and increment sensors; h in {1,2,5,10,20,50} ms; horizons 5..120 s (quick) and up to a Schuler period (thorough); '
        'half of the Imu tables with their labelled columns in another order plus an unrelated column, half with stamps on an offset origin; '
        'non-trivial = anything but (lat 55, heading-only rotation, gentle speed); distinct = generator parameters'
        ' Round 4: class of motions in which a physical quantity vanishes (level frame not rotating in inertial space - westward at the Earth-surface speed, |lat| 52..78; rest; steady straight flight) at h = 1 / 2 / 5 ms. Round 6: class polar - starts 5..170 km from either pole (|lat| 88.5..89.95, closest approach >= 3 km), cos(lat) down to 5e-4.')
ASSUMPTIONS = ['truth kinematics written by hand from textbook formulas, checked at start-up against 6th-order finite differences '
               '(disagreement => inconclusive)', 'a limit cannot be observed: restated as the bounded halving ladder above (K = 6; the true '
               'ratio of a method of order p >= 1 is <= 2)', 'longitudes compared modulo 360 (the integrator does not wrap; not part of C01)']
REQUIRED_OBS = ['ladders', 'channels_above_floor', 'southern', 'western', 'near_seam', 'fast', 'slow', 'high_altitude', 'rate_sensor',
                'increment_sensor', 'integrate_calls_monitored', 'imu_columns_permuted', 'stamps_not_from_zero', 'special_inertial_null', 'special_rest', 'special_steady']
REQUIRED_CLASSES = {'all': ['rate-N', 'rate-S', 'increment-N', 'increment-S']}
EPS = np.finfo(float).eps
STATE = {}
# K = 6, shrink factor 0.9: a thorough run met a correct case whose attitude error (first-order Earth-rate / transport terms plus a
# fourth-order term of opposite sign, |lat| 84.6 deg) went 7.3e-8 -> 5.7e-8 -> 2.7e-8 -> 1.3e-8 over four halvings, i.e. 0.78 on the first
K_LADDER = 6.0
SHRINK = 0.9


def setup():
    patch.import_all()
    from pyins import strapdown
    patch.wrap(strapdown.Integrator, 'integrate', counter='integrate_calls')
    STATE['selftest'] = TM.selftest()


def cases(seed, tier):
    out = []
    n = 64 if tier == 'quick' else 900
    hs = [0.001, 0.002, 0.005, 0.01, 0.02, 0.05]
    for i in range(n):
        h = hs[i % 6]
        if (i // 24) % 2 == 1:
            # any interval in the range, not only round ones (1/300 s, 3.7 ms, ...): a "cleaned" or quantised dt only shows there
            h = float(np.random.Generator(np.random.PCG64(int(seed) * 7 + i)).uniform(0.7, 1.4)) * h
            h = min(max(h, 0.001), 0.05)
        st = 'rate' if (i // 6) % 2 == 0 else 'increment'
        south = (i // 12) % 2 == 1
        T = float(min(120.0, max(5.0, 12000 * h))) if tier == 'quick' else float(min(400.0, max(5.0, 40000 * h)))
        out.append(dict(seed=int(seed) * 1000003 + i, cls=f'{st}-{"S" if south else "N"}', h=h, T=T, sensor=st, south=south,
                        rungs=2 if tier == 'quick' else 3, cost=T / h / 1000))
    # regimes in which a physical quantity vanishes (see truth_motion.special_motion), at the fine end of the interval range
    # ... and the polar end of "any initial position" (Round 5/6: a clamp on cos(lat) close to a pole)
    kinds = ['inertial_null', 'polar', 'rest', 'polar', 'inertial_null', 'polar', 'steady', 'polar']
    for i in range(24 if tier == 'quick' else 240):
        st = 'rate' if i % 2 == 0 else 'increment'
        h = [0.001, 0.002, 0.005][i % 3]
        out.append(dict(seed=int(seed) * 1000003 + 95000 + i, cls=f'{st}-{"S" if i % 4 >= 2 else "N"}', h=h, T=float([40.0, 60.0, 100.0][i % 3]), sensor=st, south=i % 4 >= 2,
                        rungs=2, special=kinds[i % 8], cost=60))
    if tier == 'thorough':
        for i in range(6):
            out.append(dict(seed=int(seed) * 1000003 + 90000 + i, cls=f'{"rate" if i % 2 == 0 else "increment"}-{"S" if i % 4 >= 2 else "N"}',
                            h=[0.02, 0.05, 0.04][i % 3], T=5100.0, sensor='rate' if i % 2 == 0 else 'increment', south=i % 4 >= 2,
                            rungs=2, gentle=True, cost=600))
    return out


def integrate(m, T, h, sensor, wa=True, t0=0.0, shuffle=None):
    """The real pipeline on the exact IMU signal.  t0: origin of the time stamps (the motion is sampled at stamp - t0, so
    nothing but the labels changes); shuffle: rng -> the Imu table is handed over with its (labelled) columns in another
    order plus an unrelated column."""
    from pyins import strapdown
    n = int(np.floor(T / h + 1e-9))
    st = t0 + np.arange(n + 1) * h
    tt = st - t0
    imu = m.imu(tt, sensor)
    imu.index = pd.Index(st, name=imu.index.name)
    if shuffle is not None:
        imu = forms.shuffle_table(imu, shuffle)
    inc = strapdown.compute_increments_from_imu(imu, sensor)
    pva = m.trajectory(tt[:1]).iloc[0].copy()
    pva.name = st[0]
    I = strapdown.Integrator(pva, wa)
    I.integrate(inc)
    out = I.trajectory.copy()
    out.index = pd.Index(np.asarray(out.index, float) - t0, name=out.index.name)
    return out


def channel_errors(traj, ref):
    """traj, ref: tables at the same stamps -> per-stamp position (m), velocity (m/s), attitude (rad) differences."""
    from scipy.spatial.transform import Rotation
    la, lb = traj.lat.values, ref.lat.values
    rn, _, rp = W.radii(lb, ref.alt.values)
    dN = np.deg2rad(la - lb) * rn
    dlon = (traj.lon.values - ref.lon.values + 180.0) % 360.0 - 180.0
    dE = np.deg2rad(dlon) * rp
    dD = traj.alt.values - ref.alt.values
    pos = np.sqrt(dN ** 2 + dE ** 2 + dD ** 2)
    vel = np.linalg.norm(traj[['VN', 'VE', 'VD']].values - ref[['VN', 'VE', 'VD']].values, axis=1)
    Ra = Rotation.from_euler('xyz', traj[['roll', 'pitch', 'heading']].values, degrees=True)
    Rb = Rotation.from_euler('xyz', ref[['roll', 'pitch', 'heading']].values, degrees=True)
    att = (Ra * Rb.inv()).magnitude()
    return dict(pos=pos, vel=vel, att=att)


def run_case(case):
    obs = {}
    out = []
    if STATE.get('selftest', 0) > 1e-5:
        return dict(violations=[], obs=obs, nontrivial=False, inconclusive=f'truth-motion self-test disagreement {STATE["selftest"]:.2e}')
    rng = np.random.Generator(np.random.PCG64(case['seed']))
    T, h, sensor = case['T'], case['h'], case['sensor']
    lat_range = (-85, -1) if case['south'] else (1, 85)
    speed_max = 300.0 if rng.random() < 0.6 else 20.0
    if case.get('special'):
        m, ex = TM.special_motion(rng, T, case['special'])
        obs['special_' + case['special']] = 1
    else:
        m, ex = TM.random_motion(rng, T, lat_range=lat_range, speed_max=speed_max, gentle=bool(case.get('gentle')),
                                 aggressive=1.0 if T <= 130 else 0.5)
    before = patch.COUNTERS['integrate_calls']
    runs = []
    try:
        frng = np.random.Generator(np.random.PCG64(case['seed'] + 77))
        t0 = float(frng.choice([0.0, 0.0, 86.5, 3600.0]))
        shuffled = bool(frng.random() < 0.5)
        for k in range(case['rungs']):
            runs.append(integrate(m, T, h / 2 ** k, sensor, t0=t0, shuffle=np.random.Generator(np.random.PCG64(case['seed'] + 78)) if shuffled else None))
        obs['imu_columns_permuted'] = int(shuffled)
        obs['stamps_not_from_zero'] = int(t0 != 0)
    except Exception as e:
        import traceback
        return dict(violations=[vio('exception', f'{type(e).__name__}: {e}', tb=traceback.format_exc()[-1000:])], obs=obs)
    obs['integrate_calls_monitored'] = patch.COUNTERS['integrate_calls'] - before
    obs['ladders'] = 1
    obs['southern'] = int(np.rad2deg(m.p['lat'][0]) < 0)
    lon0 = np.rad2deg(m.p['lon'][0])
    obs['western'] = int(lon0 < 0)
    obs['near_seam'] = int(abs(abs(lon0) - 180) < 0.01)
    obs['fast'] = int(ex['speed_max'] > 100)
    obs['slow'] = int(ex['speed_max'] <= 20)
    obs['high_altitude'] = int(m.p['alt'][0] > 10000)
    obs['rate_sensor'] = int(sensor == 'rate')
    obs['increment_sensor'] = int(sensor == 'increment')
    obs['max_rate_x100'] = int(100 * ex['w_max'])
    amp = np.cosh(T * np.sqrt(2 * 9.8 / 6.37e6))
    sample = dict(h=h, T=T, sensor=sensor, extremes=ex, lat0=float(np.rad2deg(m.p['lat'][0])), lon0=float(lon0), alt0=float(m.p['alt'][0]))
    def cleared_by_finer_rung(k, ch, e_h2, fl):
        # Two error terms of opposite sign (first-order Earth-rate / transport terms against the second-order truncation) cancel at SOME interval:
        # next to that interval err(h/2) can exceed err(h) although the solution converges (thorough run, seed 61: 2.16e-8 -> 2.22e-8 rad).  A
        # component that does not vanish stays put on every finer rung; a cancellation does not survive one more halving.  So the verdict
        # is taken only after looking one rung further (computed on demand - this is rare).
        while len(runs) <= k + 2:
            j = len(runs)
            runs.append(integrate(m, T, h / 2 ** j, sensor, t0=t0, shuffle=np.random.Generator(np.random.PCG64(case['seed'] + 78)) if shuffled else None))
        c = runs[k + 2]
        e_h4 = channel_errors(c, m.trajectory(np.asarray(c.index, float)))[ch].max()
        obs['not_shrinking_looked_one_rung_further'] = obs.get('not_shrinking_looked_one_rung_further', 0) + 1
        if e_h4 <= SHRINK * e_h2 or e_h4 <= 100 * fl:
            obs['not_shrinking_cleared_by_finer_rung'] = obs.get('not_shrinking_cleared_by_finer_rung', 0) + 1
            return True
        return False

    for k in range(case['rungs'] - 1):
        a, b = runs[k], runs[k + 1]
        hk = h / 2 ** k
        ref_a = m.trajectory(np.asarray(a.index, float))
        ref_b = m.trajectory(np.asarray(b.index, float))
        ea = channel_errors(a, ref_a)
        eb = channel_errors(b, ref_b)
        b_on_a = b.iloc[::2]
        if len(b_on_a) != len(a):
            out.append(vio('rows', f'{len(a)} rows at h={hk}, {len(b)} rows at h/2'))
            break
        d = channel_errors(a, b_on_a.set_axis(a.index))
        nsteps = len(b)
        # position: in steady motion every step adds the SAME increment to a latitude / longitude in degrees, so the rounding is systematic, not a
        # random walk - several half-ulps per step in the same direction (thorough run, seed 61: 1.04e-4 m after 2e4 steps at lon 157, with a
        # truncation error of 1.4e-6 m): 4 eps R per step
        floors = dict(pos=4 * nsteps * EPS * 6.4e6 * amp, vel=nsteps * EPS * (ex['speed_max'] + 10) * amp * 10,
                      att=nsteps * EPS * 10 * amp)
        rec = {}
        for ch in ('pos', 'vel', 'att'):
            e_h, e_h2, dd, fl = ea[ch].max(), eb[ch].max(), d[ch].max(), floors[ch]
            rec[ch] = dict(err_h=float(e_h), err_h2=float(e_h2), diff=float(dd), floor=float(fl))
            if e_h > 100 * fl:
                obs['channels_above_floor'] = obs.get('channels_above_floor', 0) + 1
                obs['max_err_over_diff_x100'] = max(obs.get('max_err_over_diff_x100', 0), int(100 * e_h / max(dd, 1e-300)))
                obs['max_shrink_x100'] = max(obs.get('max_shrink_x100', 0), int(100 * e_h2 / e_h))
            if e_h > K_LADDER * dd + fl:
                out.append(vio('non_vanishing_error', f'{ch}: distance to the exact solution at h={hk:g} is {e_h:.3e} but halving the interval '
                               f'changes the result only by {dd:.3e} (ratio {e_h / max(dd, 1e-300):.2f} > {K_LADDER:g}; floor {fl:.1e}); sensor={sensor}, '
                               f'T={T:g} s, lat0={sample["lat0"]:.2f}, lon0={sample["lon0"]:.2f}, speed<={ex["speed_max"]:.0f} m/s',
                               channel=ch, h=hk, case=sample))
            elif e_h > 100 * fl and e_h2 > SHRINK * e_h and not cleared_by_finer_rung(k, ch, e_h2, fl):
                out.append(vio('not_shrinking', f'{ch}: error {e_h:.3e} at h={hk:g} but {e_h2:.3e} at h/2 (does not shrink); sensor={sensor}',
                               channel=ch, h=hk, case=sample))
        sample[f'rung{k}'] = rec
    nontrivial = True
    return dict(violations=out, obs=obs, nontrivial=nontrivial, sample=sample)
