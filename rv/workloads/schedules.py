"""Seeded generator of IMU / measurement schedules for the two filters.

Everything is derived from an integer seed (so a replay file only needs it).
A fine 100 Hz truth motion is synthesised once per process with the repository's
own simulator; IMU stamps are sub-sets of that grid (uniform, jittered, with data
gaps), measurement epochs are placed on stamps, at fractional offsets, in clusters
inside one IMU interval, at nextafter neighbours of stamps / start / end, outside
the span, shared between sensors, or not at all.
"""
import numpy as np
import pandas as pd

FINE_DT = 0.01
FINE_T = 14.0
_CACHE = {}
LLA = ['lat', 'lon', 'alt']
VEL = ['VN', 'VE', 'VD']
RPH = ['roll', 'pitch', 'heading']


def fine_truth():
    if 'truth' not in _CACHE:
        from pyins import sim
        traj, imu = sim.generate_sine_velocity_motion(FINE_DT, FINE_T, [48.5, -123.2, 120.0], [6, -3, 0.3], [3, 4, 0.4], 11.0)
        _CACHE['truth'] = (traj, imu)
    return _CACHE['truth']


def truth_at(times):
    """Truth rows at arbitrary times (linear interpolation of the fine grid; clipped at the ends)."""
    traj, _ = fine_truth()
    t0 = np.asarray(traj.index, float)
    times = np.asarray(times, float)
    tc = np.clip(times, t0[0], t0[-1])
    out = np.column_stack([np.interp(tc, t0, traj[c].values) for c in traj.columns])
    return pd.DataFrame(out, index=pd.Index(times, name='time'), columns=traj.columns)


def imu_stamp_indices(rng, kind, step, n_inc):
    n_fine = int(round(FINE_T / FINE_DT))
    if kind == 'uniform':
        ii = np.arange(0, n_fine, step)
    elif kind == 'jitter':
        ii = np.unique(np.r_[0, np.cumsum(rng.integers(max(1, step // 2), step * 2 + 1, size=n_fine // max(1, step // 2)))])
        ii = ii[ii < n_fine]
    else:       # gaps
        ii = np.arange(0, n_fine, step)
        for _ in range(int(rng.integers(1, 4))):
            if len(ii) > 20:
                d = int(rng.integers(5, len(ii) - 10))
                ii = np.delete(ii, np.arange(d, min(d + int(rng.integers(2, 50)), len(ii) - 3)))
    s = int(rng.integers(0, max(1, len(ii) - n_inc - 1)))
    return ii[s:s + n_inc + 1]


def place_epochs(rng, t, mode):
    start, end = t[0], t[-1]
    span = end - start
    if mode == 'none':
        return np.array([])
    if mode == 'on':
        return np.unique(rng.choice(t, int(rng.integers(1, 9))))
    if mode == 'off':
        return np.unique(rng.uniform(start - 0.3, end + 0.3, int(rng.integers(1, 9))))
    if mode == 'cluster':
        out = []
        for _ in range(int(rng.integers(1, 4))):
            k = int(rng.integers(0, len(t) - 1))
            width = int(rng.integers(1, 3))                      # also two per interval in adjacent intervals
            for j in range(k, min(k + width, len(t) - 1)):
                out += list(t[j] + (t[j + 1] - t[j]) * rng.uniform(0.02, 0.98, int(rng.integers(2, 7))))
        return np.unique(out)
    if mode == 'edges':
        k = rng.choice(t[1:-1], 3)
        cand = np.r_[start, end, np.nextafter(start, -np.inf), np.nextafter(start, np.inf), np.nextafter(end, -np.inf),
                     np.nextafter(end, np.inf), np.nextafter(k, -np.inf), np.nextafter(k, np.inf), k]
        return np.unique(rng.choice(cand, int(rng.integers(2, len(cand)))))
    if mode == 'outside':
        return np.unique(np.r_[start - rng.uniform(0.001, 1, 2), end + rng.uniform(0.001, 1, 2)])
    if mode == 'tail':          # lagging epochs close to the end of the data
        return np.unique(np.r_[end - span * rng.uniform(0, 0.05, 3), t[-3:]])
    if mode == 'dense':         # more epochs than IMU samples locally
        return np.unique(rng.uniform(start, end, int(rng.integers(10, 40))))
    raise ValueError(mode)


MODES = ['none', 'on', 'off', 'cluster', 'edges', 'outside', 'tail', 'dense']


def build(seed, for_feedforward=False):
    """Returns a dict with every object a filter run needs, and the plain description of the schedule."""
    from pyins import strapdown, measurements, inertial_sensor, sim
    rng = np.random.Generator(np.random.PCG64(seed))
    traj0, imu0 = fine_truth()
    kind = str(rng.choice(['uniform', 'jitter', 'gaps']))
    step = int(rng.choice([1, 2, 5, 10, 20]))
    n_inc = int(rng.integers(30, 140))
    # own stream for what was added later (the schedules of earlier seeds stay what they were)
    frng = np.random.Generator(np.random.PCG64(int(seed) + 977))
    tiny = bool(frng.random() < 0.08)
    if tiny:
        n_inc = int(frng.integers(1, 4))          # records of one, two or three increments (every loop runs its first and last pass at once)
    ii = imu_stamp_indices(rng, kind, step, n_inc)
    imu = imu0.iloc[ii]
    traj = traj0.iloc[ii]
    inc = strapdown.compute_increments_from_imu(imu, 'rate')
    # representation of the tables (own stream, so that the schedules themselves stay as they were): label-addressed tables may come with
    # their columns in another order, unrelated extra columns and an unnamed time index
    table_forms = bool(frng.random() < 0.3)
    rows_unsorted = False
    if table_forms:
        from rv.workloads import forms
        inc = forms.shuffle_table(inc, frng)
        if frng.random() < 0.5:
            inc = forms.rename_index(inc, None)
    t = np.asarray(traj.index, float)
    start, end = t[0], t[-1]
    h = float(np.median(np.diff(t)))
    with_altitude = bool(rng.integers(0, 2))
    # ---- measurement streams (at most one per class: the API keys innovations by class name)
    sensors = []
    shared = None
    use_none = rng.random() < 0.06
    desc = []
    for cls in ('Position', 'NedVelocity', 'BodyVelocity'):
        if use_none or rng.random() < 0.25:
            continue
        nm = int(rng.integers(1, 3))
        modes = [str(m) for m in rng.choice(MODES, nm, replace=False)]
        if tiny:
            modes = [m if m in ('none', 'on', 'off', 'outside', 'dense') else 'on' for m in modes]
        e = np.unique(np.concatenate([place_epochs(rng, t, m) for m in modes] + [np.array([])]))
        if shared is not None and rng.random() < 0.35:
            e = np.unique(np.r_[e, rng.choice(shared, max(1, len(shared) // 2))]) if len(shared) else e
            modes.append('shared')
        if len(e):
            shared = e
        ref = truth_at(e)
        sd = {'Position': 1.0, 'NedVelocity': 0.3, 'BodyVelocity': 0.2}[cls]
        mseed = int(rng.integers(0, 2 ** 31))
        lever = None
        if cls == 'Position':
            lever = [1.0, -0.5, 0.3] if rng.random() < 0.4 else None
            data = sim.generate_position_measurements(ref, sd, mseed) if len(e) else pd.DataFrame(columns=LLA, index=pd.Index([], dtype=float), dtype=float)
            m = measurements.Position(data, sd, lever)
        elif cls == 'NedVelocity':
            lever = [0.5, 0.2, -0.1] if rng.random() < 0.3 else None
            data = sim.generate_ned_velocity_measurements(ref, sd, mseed) if len(e) else pd.DataFrame(columns=VEL, index=pd.Index([], dtype=float), dtype=float)
            m = measurements.NedVelocity(data, sd, lever)
        else:
            data = sim.generate_body_velocity_measurements(ref, sd, mseed) if len(e) else pd.DataFrame(columns=['VX', 'VY', 'VZ'], index=pd.Index([], dtype=float), dtype=float)
            m = measurements.BodyVelocity(data, sd)
        if table_forms and len(e):
            d2 = forms.shuffle_table(data, frng, extra=bool(frng.integers(0, 2)))
            if frng.random() < 0.5 and len(d2) > 1:
                # rows not in time order (two receiver logs appended later-file-first): a table indexed by time, not a sorted one
                k_ = int(frng.integers(1, len(d2)))
                d2 = pd.concat([d2.iloc[k_:], d2.iloc[:k_]])
                rows_unsorted = True
            m = type(m)(d2, sd, *([lever] if cls != 'BodyVelocity' else []))
        sensors.append(m)
        desc.append(dict(cls=cls, modes=modes, n=int(len(e)), lever=lever,
                         inside=int(((e >= start) & (e < end)).sum())))
    # the order in which the sensors are listed is the caller's business: any permutation (the sequential models judge by class and time)
    if len(sensors) > 1 and frng.random() < 0.6:
        sensors = [sensors[i] for i in frng.permutation(len(sensors))]
    meas_arg = sensors
    if not sensors:
        meas_arg = None if rng.random() < 0.5 else []
    span = end - start
    ts_choices = [0.1 * h, 0.5 * h, h, 1.7 * h, 0.1, 0.37, 1.0, 2 * span, float(np.round(h, 6)), 3.3 * h]
    time_step = float(ts_choices[int(rng.integers(0, len(ts_choices)))])
    mk = str(rng.choice(['none', 'bias', 'full']))
    if mk == 'none':
        gm = am = None
    elif mk == 'bias':
        gm = inertial_sensor.EstimationModel(bias_sd=1e-4)
        am = inertial_sensor.EstimationModel(bias_sd=1e-2)
    else:
        gm = inertial_sensor.EstimationModel(bias_sd=[1e-4, 0, 2e-4], noise=1e-5, bias_walk=[1e-6, 0, 0],
                                             scale_misal_sd=[[1e-3, 0, 0], [0, 0, 1e-3], [0, 0, 0]])
        am = inertial_sensor.EstimationModel(bias_sd=1e-2, noise=[1e-3, 0, 1e-3], bias_walk=1e-4,
                                             scale_misal_sd=[[0, 0, 0], [1e-3, 1e-3, 0], [0, 0, 0]])
    if frng.random() < 0.3:
        # the two triads configured independently (scale / misalignment states on one of them only, one triad without any model, ...)
        def one(which):
            k = str(frng.choice(['none', 'bias', 'sm', 'full']))
            if k == 'none':
                return None, k
            if k == 'bias':
                return inertial_sensor.EstimationModel(bias_sd=1e-4 if which == 'g' else 1e-2), k
            smm = [[1e-3, 0, 0], [0, 0, 1e-3], [0, 0, 0]] if which == 'g' else [[0, 0, 0], [1e-3, 1e-3, 0], [0, 0, 0]]
            if k == 'sm':
                return inertial_sensor.EstimationModel(scale_misal_sd=smm), k
            return inertial_sensor.EstimationModel(bias_sd=[1e-4, 0, 2e-4] if which == 'g' else 1e-2, noise=1e-5 if which == 'g' else [1e-3, 0, 1e-3],
                                                   bias_walk=[1e-6, 0, 0] if which == 'g' else 1e-4, scale_misal_sd=smm), k
        (gm, kg), (am, ka) = one('g'), one('a')
        mk = 'full' if ('sm' in (kg, ka) or 'full' in (kg, ka)) else ('none' if kg == ka == 'none' else 'bias')
        mixed_models = f'{kg}/{ka}'
    else:
        mixed_models = None
    # epochs per class inside [start, end) and how many share an IMU interval
    all_e = np.unique(np.concatenate([np.asarray(m.data.index, float) for m in sensors] + [np.array([])]))
    inside = all_e[(all_e >= start) & (all_e < end)]
    per_interval = np.bincount(np.searchsorted(t, inside, side='right'), minlength=len(t) + 1).max() if len(inside) else 0
    init_err = rng.standard_normal(9) * np.array([2, 2, 2, 0.2, 0.2, 0.2, 0.1, 0.1, 0.3])
    return dict(traj=traj, imu=imu, increments=inc, measurements=meas_arg, sensors=sensors, times=t, start=start, end=end,
                with_altitude=(np.bool_(with_altitude) if frng.random() < 0.4 else with_altitude), time_step=time_step, gyro_model=gm, accel_model=am, model_kind=mk,
                describe=dict(imu=kind, step=step, n_inc=int(len(inc)), median_dt=h, max_gap=float(np.diff(t).max()),
                              time_step=time_step, with_altitude=with_altitude, models=mk, sensors=desc, tables_permuted=table_forms, rows_unsorted=rows_unsorted, tiny_record=tiny, mixed_models=mixed_models,
                              measurements_arg='list' if sensors else ('None' if meas_arg is None else '[]'),
                              epochs_inside=int(len(inside)), max_epochs_in_one_interval=int(per_interval)),
                init_err=init_err)
