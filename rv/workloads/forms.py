"""Representation and history variants shared by the workloads.

The properties quantify over *inputs*, not over the particular way a harness happens to build
them.  pyins's public types are label-based tables (pyins/__init__.py, util.py column lists), any
real time stamps, any numeric dtype.  Every helper here turns one input into an equivalent one in
another legitimate representation; the oracle of the calling check is unchanged.

  shuffle_table   columns in another order (plus an unrelated extra column)
  stamps          time-stamp patterns: uniform, jitter, one late sample (mean-preserving), two rates, a gap,
                  alternating, repeated; optionally on an offset origin (GPS-like stamps)
  as_int          integer dtype for integer-valued data
  Reused          a long-lived object updated in place between calls (stale caches keyed on identity or on
                  a retained reference only show on such a history)
"""
import numpy as np
import pandas as pd

STAMP_MODES = ('uniform', 'jitter', 'one_late', 'two_rate', 'gap', 'alternating', 'ramp')


def shuffle_table(df, rng, extra=True, p=1.0, nan_extra=False):
    """Same labelled data, columns permuted, optionally with one unrelated extra column."""
    if rng.random() > p:
        return df
    cols = list(df.columns)
    perm = list(rng.permutation(len(cols)))
    if len(cols) > 1 and perm == sorted(perm):
        perm = perm[1:] + perm[:1]
    out = df[[cols[i] for i in perm]].copy()
    if extra:
        v = rng.normal(size=len(df)) * 1e3
        if nan_extra:
            # a column of another, slower sensor in the same log: gaps (NaN) in rows whose own columns are complete
            v[rng.random(len(df)) < 0.6] = np.nan
        out.insert(int(rng.integers(0, len(cols) + 1)), 'rv_extra', v)
    return out


def stamps(n, h, rng, mode, t0=0.0):
    """n + 1 increasing stamps with mean interval ~h starting at t0."""
    d = np.full(n, float(h))
    if mode == 'jitter':
        d = h * rng.uniform(0.6, 1.4, n)
    elif mode == 'one_late':
        # a regular clock with single samples arriving late: the mean interval stays the first interval
        for k in rng.choice(np.arange(2, max(3, n - 2)), size=max(1, n // 40), replace=False):
            if d[k] == h and d[k + 1] == h:
                e = h * rng.uniform(0.1, 0.4)
                d[k] += e
                d[k + 1] -= e
    elif mode == 'two_rate':
        k = int(n * rng.uniform(0.2, 0.8))
        d[k:] = h * rng.choice([0.25, 0.5, 2.0, 4.0])
    elif mode == 'gap':
        d[int(rng.integers(1, n - 1))] = h * rng.uniform(3, 12)
    elif mode == 'alternating':
        e = h * rng.uniform(0.1, 0.4)
        d[::2] += e
        d[1::2] -= e
    elif mode == 'ramp':
        d = h * np.linspace(0.5, 1.5, n)
        if rng.random() < 0.5:
            d = d[::-1].copy()
    return t0 + np.r_[0.0, np.cumsum(d)]


def as_int(a):
    """Integer-dtype copy of integer-valued data (caller guarantees integrality)."""
    a = np.asarray(a)
    r = np.rint(a).astype(np.int64)
    assert np.array_equal(r, a)
    return r


def rename_index(df, name):
    out = df.copy()
    out.index = pd.Index(np.asarray(out.index), name=name)
    return out


class Reused:
    """One object kept alive across cases and overwritten in place with each new value."""

    def __init__(self):
        self.obj = None

    def put(self, value):
        """value: ndarray / Series / DataFrame of a fixed shape.  Returns the long-lived object now holding it."""
        if self.obj is None or type(self.obj) is not type(value) or getattr(self.obj, 'shape', None) != getattr(value, 'shape', None) \
                or (hasattr(value, 'index') and not self.obj.index.equals(value.index)):
            self.obj = value.copy()
            return self.obj
        if isinstance(value, np.ndarray):
            self.obj[...] = value
        elif isinstance(value, pd.Series):
            for k in value.index:
                self.obj[k] = value[k]
        else:
            for c in value.columns:
                self.obj[c] = value[c].values
        return self.obj


def flag(rng, b):
    """A boolean option the way callers end up passing it: the Python singleton or a numpy.bool_ (an element of an array, `np.any(...)`)."""
    return np.bool_(b) if rng.random() < 0.5 else bool(b)
