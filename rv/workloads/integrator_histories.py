"""Random call histories on the real strapdown.Integrator, with the monitors of C02 / C13.

Monitors
  * executable model: a fresh Integrator started from the most recently supplied
    state, ONE integrate call with all increments applied since - bitwise equal
  * predict(row) == the row the next integrate appends; object snapshot unchanged
  * integrate return value = previous last row ++ appended rows
  * class invariant after every public method (buffers <-> table, capacity)
  * kernel-boundary contract on the compiled `integrate` as resolved by
    pyins.strapdown (capacity, contiguity, dtype) - fires BEFORE an out-of-range write
  * 2-D trace monitor (C13): VD == 0 and alt == most recently supplied altitude
  * earlier return values do not change after later calls (stale views after resize)
"""
import numpy as np
import pandas as pd

from rv.core import vio
from rv.instrument import patch

TRAJ = ['lat', 'lon', 'alt', 'VN', 'VE', 'VD', 'roll', 'pitch', 'heading']
INC = ['dt', 'theta_x', 'theta_y', 'theta_z', 'dv_x', 'dv_y', 'dv_z']
OBS = {}
PENDING = []


def bump(k, m=1):
    OBS[k] = OBS.get(k, 0) + int(m)


def bits(a):
    return np.ascontiguousarray(np.asarray(a, dtype=float)).view(np.uint64)


def same_bits(a, b):
    a = np.asarray(a, dtype=float)
    b = np.asarray(b, dtype=float)
    return a.shape == b.shape and np.array_equal(bits(a), bits(b))


def same_table(a, b):
    return (list(a.columns) == list(b.columns) and same_bits(a.values, b.values)
            and same_bits(np.asarray(a.index, float), np.asarray(b.index, float)))


# ---------------------------------------------------------------- kernel-boundary contract
def _kernel_pre(args, kwargs):
    dt_array, lla, velocity_n, mat_nb, theta, dv, offset, with_altitude = args
    bump('kernel_calls')
    n = len(theta)
    problems = []
    if not (len(lla) == len(velocity_n) == len(mat_nb)):
        problems.append(f'buffer lengths differ: {len(lla)} {len(velocity_n)} {len(mat_nb)}')
    cap = min(len(lla), len(velocity_n), len(mat_nb))
    if offset < 0 or offset + n + 1 > cap:
        problems.append(f'kernel would write rows {offset + 1}..{offset + n} but capacity is {cap}')
    if len(dt_array) != n or len(dv) != n:
        problems.append(f'input lengths dt={len(dt_array)} theta={n} dv={len(dv)}')
    for name, a, shp in (('lla', lla, 3), ('velocity_n', velocity_n, 3), ('theta', theta, 3), ('dv', dv, 3)):
        if a.dtype != np.float64 or a.ndim != 2 or a.shape[1] != shp or not a.flags.c_contiguous:
            problems.append(f'{name}: dtype {a.dtype} shape {a.shape} contiguous {a.flags.c_contiguous}')
    if mat_nb.dtype != np.float64 or mat_nb.shape[1:] != (3, 3) or not mat_nb.flags.c_contiguous:
        problems.append(f'mat_nb: dtype {mat_nb.dtype} shape {mat_nb.shape}')
    if offset + n + 1 == cap:
        bump('kernel_calls_filling_capacity_exactly')
    if problems:
        PENDING.append(vio('kernel_contract', '; '.join(problems), offset=int(offset), n=int(n), capacity=int(cap)))
        raise KernelContractViolation('; '.join(problems))
    return None


class KernelContractViolation(Exception):
    pass


def install_kernel_contract():
    from pyins import strapdown
    patch.wrap(strapdown, 'integrate', pre=_kernel_pre, counter='kernel_wrapper_calls')


# ---------------------------------------------------------------- class invariant
def check_invariant(I, rng, where, strict=True):
    bump('invariant_evaluations')
    n = len(I.trajectory)
    if not (len(I.lla) == len(I.velocity_n) == len(I.mat_nb)):
        return vio('invariant_buffers', f'{where}: buffer lengths differ {len(I.lla)} {len(I.velocity_n)} {len(I.mat_nb)}')
    if len(I.lla) < n:
        return vio('invariant_capacity', f'{where}: capacity {len(I.lla)} < rows {n}')
    idx = np.asarray(I.trajectory.index, float)
    if n > 1 and not ((np.diff(idx) > 0).all() if strict else (np.diff(idx) >= 0).all()):
        return vio('invariant_index', f'{where}: trajectory index not {"strictly " if strict else ""}increasing')
    if list(I.trajectory.columns) != TRAJ:
        return vio('invariant_columns', f'{where}: columns {list(I.trajectory.columns)}')
    rows = {n - 1, int(rng.integers(0, n))}
    from pyins import transform
    for i in rows:
        r = I.trajectory.iloc[i]
        if not same_bits(r[['lat', 'lon', 'alt']].values, I.lla[i]) or not same_bits(r[['VN', 'VE', 'VD']].values, I.velocity_n[i]):
            return vio('invariant_row', f'{where}: buffer row {i} disagrees with table row {i}: lla {I.lla[i].tolist()} vs '
                       f'{r[["lat", "lon", "alt"]].values.tolist()}, v {I.velocity_n[i].tolist()} vs {r[["VN", "VE", "VD"]].values.tolist()}')
        M = transform.mat_from_rph(r[['roll', 'pitch', 'heading']].values.astype(float))
        if np.abs(M - I.mat_nb[i]).max() > 1e-9:
            return vio('invariant_attitude', f'{where}: attitude buffer row {i} disagrees with table angles by {np.abs(M - I.mat_nb[i]).max():.2e}')
    return None


# ---------------------------------------------------------------- generators
def random_pva(rng, t0, vd=True, two_d=False):
    lat = rng.uniform(-80, 80)
    lon = rng.uniform(-180, 180)
    alt = rng.uniform(-100, 10000)
    v = rng.uniform(-100, 100, 3)
    if not vd:
        v[2] = 0.0
    elif two_d:
        v[2] = rng.uniform(-50, 50)
    rph = [rng.uniform(-180, 180), rng.uniform(-80, 80), rng.uniform(-180, 180)]
    if rng.random() < 0.15:
        # angles in another legitimate representation (heading 0..360, roll a turn off)
        rph[2] += 360.0 * float(rng.choice([1, -1]))
        rph[0] += 360.0 * float(rng.choice([0, 1, -1]))
        bump('supplied_states_with_unwrapped_angles')
    return pd.Series([lat, lon, alt, *v, *rph], index=TRAJ, name=float(t0))


def random_increments(rng, n, t0, big_vertical=False, repeats=False):
    dt = rng.uniform(0.002, 0.05, n) if rng.random() < 0.5 else np.full(n, rng.choice([0.005, 0.01, 0.02]))
    rep = np.zeros(n, bool)
    if repeats:
        # "any increments table": rows with dt = 0 carrying their own increments (a repeated stamp; the first row may repeat the start time)
        rep = rng.random(n) < 0.06
        rep[0] = rng.random() < 0.5
        rep[int(rng.integers(1, n))] = True
        dt[rep] = 0.0
    t = t0 + np.cumsum(dt)
    dt = np.diff(np.r_[t0, t])
    theta = rng.standard_normal((n, 3)) * rng.uniform(0, 1.5) * dt[:, None]
    f = rng.standard_normal((n, 3)) * rng.uniform(0, 10) + np.array([0, 0, -9.8])
    if big_vertical:
        f[:, 2] += rng.uniform(-30, 30)
        theta += rng.uniform(-1, 1, 3) * dt[:, None]
    dv = f * dt[:, None]
    if repeats:
        theta[rep] = rng.standard_normal((int(rep.sum()), 3)) * 0.01
        dv[rep] = rng.standard_normal((int(rep.sum()), 3)) * 0.2
    return pd.DataFrame(np.column_stack([dt, theta, dv]), index=pd.Index(t, name='time'), columns=INC)


def make_history(rng, n_inc, ops_target):
    """A list of operations; chunk sizes are chosen to hit capacity boundaries (see driver)."""
    return None


# ---------------------------------------------------------------- the driver
def run_history(case, two_d_monitors=False):
    """case: dict(seed, with_altitude, initial_size, n_inc, ...).  Returns (violations, sample)."""
    from pyins import strapdown
    rng = np.random.Generator(np.random.PCG64(case['seed']))
    wa = bool(case['with_altitude'])
    size = int(case['initial_size'])
    n_inc = int(case['n_inc'])
    out = []
    PENDING.clear()

    def fail(v):
        if v is not None and len(out) < 8:
            out.append(v)

    Sub = type('SmallIntegrator', (strapdown.Integrator,), {'INITIAL_SIZE': size})
    t0 = float(np.round(rng.uniform(0, 1000), 3))
    # in 2-D histories for C02 the supplied states have VD = 0 (a non-zero VD there is C13's business)
    vd_nonzero = two_d_monitors or wa
    pva0 = random_pva(rng, t0, vd=vd_nonzero, two_d=two_d_monitors)
    from pyins import strapdown as strapdown
    repeats = bool(case.get('repeats'))
    inc = random_increments(rng, n_inc, t0, big_vertical=two_d_monitors, repeats=repeats)
    vertical = bool(case.get('vertical'))
    if vertical:
        # a vehicle standing on its tail (pitch exactly +-90, the Euler-angle singularity as a SUSTAINED attitude): stationary, with the
        # Earth-rate-consistent readings of that attitude, so that every computed row stays at the singularity
        from pyins import sim
        sg = float(rng.choice([-1.0, 1.0]))
        pva0 = random_pva(rng, t0, vd=True)
        pva0[['VN', 'VE', 'VD']] = 0.0
        pva0['pitch'] = 90.0 * sg
        tt_ = t0 + np.arange(n_inc + 1) * 0.01
        _, imu_ = sim.generate_imu(tt_, np.tile(pva0[['lat', 'lon', 'alt']].values.astype(float), (n_inc + 1, 1)),
                                   np.tile(pva0[['roll', 'pitch', 'heading']].values.astype(float), (n_inc + 1, 1)), np.zeros((n_inc + 1, 3)))
        inc = strapdown.compute_increments_from_imu(imu_, 'rate')
        bump('histories_at_gimbal_lock')
    rep_rows = np.nonzero(inc['dt'].values == 0.0)[0] if repeats else np.array([], int)
    if rng.random() < 0.25:
        # "any increments table": columns in another order and an extra column (selection must be by label)
        cols = list(inc.columns)
        inc['temperature'] = 20.0 + rng.standard_normal(len(inc))
        inc = inc[list(rng.permutation(cols + ['temperature']))]
        bump('tables_with_permuted_columns')
    pva0_copy = pva0.copy()
    inc_copy = inc.copy()
    I = Sub(pva0, np.bool_(wa) if case['seed'] % 3 == 0 else wa)
    fail(check_invariant(I, rng, 'constructor'))
    if repeats:
        bump('histories_with_repeated_stamps')
    alt_ref = float(pva0.alt)
    last_state = I.trajectory.iloc[-1].copy()        # most recently supplied state (as the object reports it)
    last_state.name = t0
    since = 0                                        # increments[since:pos] were applied since the last supply
    pos = 0
    expected_index = [t0]
    returned = []                                    # (copy, live object) of earlier return values
    ops = []
    frozen_prefix = I.trajectory.copy()              # rows before the last supplied state never change again
    n_ops = 0

    def twod_rows(rows, where):
        if not wa:
            bump('twoD_rows_checked', len(rows))
            vd = rows['VD'].values.astype(float)
            al = rows['alt'].values.astype(float)
            if np.any(vd != 0.0):
                fail(vio('twoD_vertical_velocity', f'{where}: VD = {vd[vd != 0][:3].tolist()} in no-altitude mode', op=where))
            if not same_bits(al, np.full(len(al), alt_ref)):
                bad = al[bits(al) != bits(np.full(len(al), alt_ref))]
                fail(vio('twoD_altitude', f'{where}: altitude {bad[:3].tolist()} != most recently supplied altitude {alt_ref!r}', op=where))

    def model_rows():
        """Fresh integrator from the most recently supplied state, one call with everything since."""
        F = strapdown.Integrator(last_state, wa)
        if pos > since:
            F.integrate(inc.iloc[since:pos])
        return F.trajectory

    while pos < n_inc or n_ops < 3:
        n_ops += 1
        if n_ops > 4 * n_inc + 50:
            break
        r = rng.random()
        if case.get('long') and r >= 0.5:
            r = 0.5 + (r - 0.5) * 0.2 if rng.random() < 0.8 else r      # long histories: mostly integrate / predict
        cap = len(I.lla)
        rows = len(I.trajectory)
        try:
            if r < 0.50 and pos < n_inc:
                # chunk sizes aimed at the capacity boundary
                room = cap - rows
                choices = [0, 1, int(rng.integers(0, 8)), room, max(room - 1, 0), room + 1, 2 * cap + 1,
                           int(rng.integers(0, max(2, n_inc // 3)))]
                if case.get('long'):
                    choices = [int(rng.integers(1, 1500)), 1000, 999, 1001, 700, int(rng.integers(1, 40)), room, room + 1]
                k = int(min(max(choices[int(rng.integers(0, len(choices)))], 0), n_inc - pos))
                nxt = rep_rows[rep_rows > pos]
                if len(nxt) and rng.random() < 0.5:
                    k = int(nxt[0] - pos)             # the chunk ends right before a row that repeats the then-current time
                    bump('chunks_ending_before_repeated_stamp')
                chunk = inc.iloc[pos:pos + k]
                ops.append(('integrate', k))
                prev_last = I.trajectory.iloc[-1].copy()
                prev_time = I.trajectory.index[-1]
                ret = I.integrate(chunk)
                bump('integrate_calls')
                if k == 0:
                    bump('empty_chunks')
                if rows + k > cap:
                    bump('growth_events')
                if rows + k == cap:
                    bump('chunks_ending_exactly_at_capacity')
                pos += k
                expected_index += list(chunk.index)
                # return value = previous last row ++ appended rows
                if len(ret) != k + 1 or ret.index[0] != prev_time or not same_bits(ret.iloc[0].values, prev_last.values) \
                        or not same_table(ret, I.trajectory.iloc[-k - 1:]):
                    fail(vio('integrate_return', f'integrate({k} rows) returned {len(ret)} rows; expected the previous last row '
                             f'followed by the {k} appended rows', op=len(ops)))
                returned.append((ret.copy(), ret))
                twod_rows(ret.iloc[1:], f'integrate#{len(ops)}')
                # executable model
                M = model_rows()
                got = I.trajectory.iloc[len(frozen_prefix) - 1:]
                bump('model_comparisons')
                if not same_table(I.trajectory.iloc[:len(frozen_prefix) - 1], frozen_prefix.iloc[:-1]):
                    fail(vio('history_rewritten', 'rows before the most recently supplied state changed', op=len(ops)))
                if not same_table(got, M):
                    d = 'shape' if got.shape != M.shape else f'max diff {np.abs(got.values - M.values).max():.3e}'
                    fail(vio('history_dependence', f'after {ops[-6:]}: trajectory since the last supplied state differs bitwise from a '
                             f'fresh integrator with one integrate call ({d}); capacity {cap}, rows {rows}', op=len(ops)))
            elif r < 0.75 and pos < n_inc:
                row = inc.iloc[pos]
                zero_row = rng.random() < 0.2
                if zero_row:
                    # an increment that is zero in every column, stamped with the current time
                    row = row * 0.0
                    row.name = I.trajectory.index[-1]
                    bump('predict_with_zero_increment')
                ops.append(('predict',))
                snap_t = I.trajectory.copy()
                snap_b = (I.lla[:rows].copy(), I.velocity_n[:rows].copy(), I.mat_nb[:rows].copy())
                p = I.predict(row)
                bump('predict_calls')
                if rows + 1 > cap:
                    bump('predict_when_full')
                if not same_table(I.trajectory, snap_t) or not (same_bits(I.lla[:rows], snap_b[0]) and same_bits(I.velocity_n[:rows], snap_b[1])
                                                                 and same_bits(I.mat_nb[:rows], snap_b[2])):
                    fail(vio('predict_side_effect', 'predict changed the stored trajectory or the valid part of the buffers', op=len(ops)))
                # the reference: continue the model by exactly this increment
                Mx = strapdown.Integrator(last_state, wa)
                Mx.integrate(pd.concat([inc.iloc[since:pos], row.to_frame().T]) if zero_row else inc.iloc[since:pos + 1])
                exp = Mx.trajectory.iloc[-1]
                if not (same_bits(p.values, exp.values) and list(p.index) == TRAJ and p.name == row.name):
                    fail(vio('predict_value', f'predict(row {pos}) differs from the row the next integrate appends: '
                             f'{p.values.tolist()} vs {exp.values.tolist()}', op=len(ops)))
                twod_rows(p.to_frame().T, f'predict#{len(ops)}')
            elif r < 0.83:
                ops.append(('get_pva',))
                g = I.get_pva()
                bump('get_calls')
                if not same_bits(g.values, I.trajectory.iloc[-1].values):
                    fail(vio('get_pva', 'get_pva is not the last row'))
                if I.get_time() != expected_index[-1]:
                    fail(vio('get_time', f'get_time {I.get_time()!r} != last applied stamp {expected_index[-1]!r}'))
            elif r < 0.93:
                # overwrite the latest state
                t_now = I.trajectory.index[-1]
                newp = random_pva(rng, t_now, vd=vd_nonzero, two_d=two_d_monitors)
                mode_r = rng.random()
                if mode_r < 0.25:           # position / velocity reset that keeps the reported angles exactly (set_pva(get_pva()) included)
                    cur = I.get_pva()
                    newp = cur.copy()
                    if rng.random() < 0.7:
                        newp['lat'] += 1e-5 * rng.standard_normal()
                        newp['VN'] += 0.3 * rng.standard_normal()
                        if vd_nonzero:
                            newp['alt'] += rng.standard_normal()
                    newp.name = t_now
                    bump('set_pva_angles_kept')
                elif mode_r < 0.5:      # small correction of the current state, as a filter does
                    cur = I.get_pva()
                    newp = cur + pd.Series(np.r_[rng.standard_normal(2) * 1e-5, rng.standard_normal(1),
                                                 rng.standard_normal(3) * 0.1, rng.standard_normal(3) * 0.1], index=TRAJ)
                    newp['pitch'] = np.clip(newp['pitch'], -85, 85)
                    if not vd_nonzero:
                        newp['VD'] = 0.0
                    newp.name = t_now
                if vertical:
                    # at pitch +-90 only roll -+ heading is defined: relabel the SAME physical attitude with another heading
                    cur = I.get_pva()
                    newp = cur.copy()
                    dh = float(rng.uniform(-170, 170))
                    sgp = 1.0 if cur['pitch'] > 0 else -1.0
                    newp['heading'] = (cur['heading'] + dh + 180.0) % 360.0 - 180.0
                    newp['roll'] = (cur['roll'] + sgp * dh + 180.0) % 360.0 - 180.0
                    newp['pitch'] = 90.0 * sgp
                    newp.name = t_now
                    bump('set_pva_at_gimbal_lock')
                ops.append(('set_pva',))
                newp_copy = newp.copy()
                before_rows = I.trajectory.iloc[:-1].copy()
                if rng.random() < 0.2:
                    # the documented Pva type is a label set: the same state with its labels in another order
                    given = newp[list(rng.permutation(TRAJ))]
                    given_copy = given.copy()
                    I.set_pva(given)
                    bump('set_pva_with_permuted_labels')
                    if not same_bits(given.values, given_copy.values) or list(given.index) != list(given_copy.index):
                        fail(vio('argument_modified', 'set_pva modified the (label-permuted) state passed to it'))
                else:
                    I.set_pva(newp)
                bump('set_pva_calls')
                if not same_bits(newp.values, newp_copy.values):
                    fail(vio('argument_modified', 'set_pva modified the state passed to it'))
                if not same_table(I.trajectory.iloc[:-1], before_rows):
                    fail(vio('set_pva_history', 'set_pva changed rows other than the last'))
                alt_ref = float(newp.alt)
                last_state = I.trajectory.iloc[-1].copy()
                last_state.name = t_now
                exp_state = newp.copy()
                if not wa:
                    exp_state['VD'] = 0.0
                if not same_bits(last_state.values, exp_state.values):
                    fail(vio('set_pva_value', f'latest state after set_pva is {last_state.values.tolist()}, supplied {newp.values.tolist()}'))
                since = pos
                frozen_prefix = I.trajectory.copy()
                twod_rows(I.trajectory.iloc[-1:], f'set_pva#{len(ops)}')
            elif r < 0.955:
                # Round 6: a REJECTED overwrite (a fix without attitude / without velocity columns, as a user passing the wrong table row would):
                # the call raises and must leave no trace - the table, the valid part of the buffers and the continuation are as if it had
                # not happened (the history model simply does not know about it).
                ops.append(('set_pva_rejected',))
                t_now = I.trajectory.index[-1]
                full = random_pva(rng, t_now, vd=True, two_d=False)
                full['alt'] += 1000.0
                full['VD'] = 7.0
                keep = [TRAJ[:6], TRAJ[:3], TRAJ[:3] + TRAJ[6:], TRAJ[3:]][int(rng.integers(0, 4))]
                part = full[keep]
                rows_ = len(I.trajectory)
                snap_t = I.trajectory.copy()
                snap_b = (I.lla[:rows_].copy(), I.velocity_n[:rows_].copy(), I.mat_nb[:rows_].copy())
                try:
                    I.set_pva(part)
                    fail(vio('exception', f'set_pva accepted a state without {sorted(set(TRAJ) - set(keep))}'))
                except (KeyError, IndexError, ValueError, TypeError, AttributeError):
                    bump('set_pva_rejected_calls')
                if not same_table(I.trajectory, snap_t) or not (same_bits(I.lla[:rows_], snap_b[0]) and same_bits(I.velocity_n[:rows_], snap_b[1])
                                                                 and same_bits(I.mat_nb[:rows_], snap_b[2])):
                    fail(vio('rejected_call_left_trace', f'a rejected set_pva (columns {keep}) changed the stored trajectory or the buffers', op=len(ops)))
            elif r < 0.975 and pos < len(inc):
                # ... and a REJECTED integrate / predict (an increments table lacking a column): no trace either
                ops.append(('integrate_rejected',))
                drop = [['dv_z'], ['dt'], ['theta_x', 'theta_y']][int(rng.integers(0, 3))]
                badt = inc.iloc[pos:pos + int(rng.integers(1, 6))].drop(columns=drop)
                rows_ = len(I.trajectory)
                snap_t = I.trajectory.copy()
                snap_b = (I.lla[:rows_].copy(), I.velocity_n[:rows_].copy(), I.mat_nb[:rows_].copy())
                for what in ('integrate', 'predict'):
                    try:
                        I.integrate(badt) if what == 'integrate' else I.predict(badt.iloc[0])
                        fail(vio('exception', f'{what} accepted increments without {drop}'))
                    except (KeyError, IndexError, ValueError, TypeError, AttributeError):
                        bump('integrate_rejected_calls')
                if not same_table(I.trajectory, snap_t) or not (same_bits(I.lla[:rows_], snap_b[0]) and same_bits(I.velocity_n[:rows_], snap_b[1])
                                                                 and same_bits(I.mat_nb[:rows_], snap_b[2])):
                    fail(vio('rejected_call_left_trace', f'a rejected integrate / predict (increments without {drop}) changed the stored trajectory or the buffers', op=len(ops)))
            else:
                ops.append(('get_time',))
                if I.get_time() != expected_index[-1]:
                    fail(vio('get_time', f'get_time {I.get_time()!r} != {expected_index[-1]!r}'))
        except KernelContractViolation:
            out.extend(PENDING)
            PENDING.clear()
            break
        except IndexError as e:       # the bounds-checked build
            fail(vio('kernel_out_of_bounds', f'compiled kernel indexed out of range after {ops[-6:]}: {e}', op=len(ops)))
            break
        except Exception as e:
            import traceback
            fail(vio('exception', f'{type(e).__name__}: {e} after {ops[-6:]}', tb=traceback.format_exc()[-1000:]))
            break
        fail(check_invariant(I, rng, f'{ops[-1][0]}#{len(ops)}', strict=not repeats))
        if out:
            break
    out.extend(PENDING)
    # ---- end of history: exactly-once time index, earlier returns unchanged, arguments untouched
    if not out:
        idx = np.asarray(I.trajectory.index, float)
        bump('index_conservation_checked')
        if not same_bits(idx, np.asarray(expected_index, float)):
            fail(vio('time_index', f'time index has {len(idx)} stamps, expected start + every applied increment stamp exactly once '
                     f'({len(expected_index)})'))
        for cp, live in returned:
            bump('stale_return_checked')
            if not same_table(cp, live):
                fail(vio('returned_table_changed', 'a table returned by an earlier integrate call changed after later calls'))
                break
        if not same_bits(pva0.values, pva0_copy.values) or not same_table(inc, inc_copy):
            fail(vio('argument_modified', 'initial state or increments table modified by the integrator'))
    sample = dict(ops=len(ops), first_ops=[list(o) for o in ops[:12]], initial_size=size, n_inc=n_inc, with_altitude=wa,
                  final_capacity=int(len(I.lla)), rows=int(len(I.trajectory)))
    return out, sample


def euler_batch_probe():
    """Bit-identity of the Euler-angle extraction whatever the batch length (platform property relied on)."""
    from pyins import transform
    rng = np.random.Generator(np.random.PCG64(7))
    from scipy.spatial.transform import Rotation
    M = Rotation.from_rotvec(rng.standard_normal((64, 3))).as_matrix()
    full = transform.mat_to_rph(M)
    for k in (1, 2, 3, 5, 8, 13, 33):
        for s in range(0, 64 - k, 7):
            if not same_bits(transform.mat_to_rph(M[s:s + k]), full[s:s + k]):
                return False
    return True


def run_huge(case):
    """One integrate call far larger than any growth step of the buffers (default capacity), against the same increments in a few
    chunks; the kernel-boundary contract turns an undersized resize into a report instead of a wild write."""
    from pyins import strapdown
    rng = np.random.Generator(np.random.PCG64(case['seed']))
    n = int(case['n_inc'])
    wa = bool(case['with_altitude'])
    out = []
    PENDING.clear()
    pva0 = random_pva(rng, 0.0)
    dt = np.full(n, 0.01)
    t = np.cumsum(dt)
    theta = rng.standard_normal((n, 3)) * 1e-3
    dv = (rng.standard_normal((n, 3)) * 0.5 + np.array([0, 0, -9.8])) * 0.01
    inc = pd.DataFrame(np.column_stack([dt, theta, dv]), index=pd.Index(t, name='time'), columns=INC)
    try:
        A = strapdown.Integrator(pva0, wa)
        A.integrate(inc)
        bump('huge_single_calls')
        OBS['max_single_call_rows'] = max(OBS.get('max_single_call_rows', 0), n)
        B = strapdown.Integrator(pva0, wa)
        cuts = np.sort(rng.integers(1, n, size=int(rng.integers(3, 7))))
        for a, b in zip(np.r_[0, cuts], np.r_[cuts, n]):
            B.integrate(inc.iloc[a:b])
        v = check_invariant(A, rng, 'huge single call')
        if v is not None:
            out.append(v)
        if not same_table(A.trajectory, B.trajectory):
            out.append(vio('history_dependence', f'one integrate call of {n} rows differs bitwise from the same rows in chunks cut at {cuts.tolist()}'))
        if len(A.trajectory) != n + 1:
            out.append(vio('time_index', f'{len(A.trajectory)} rows after one call of {n} increments'))
    except KernelContractViolation:
        pass
    except Exception as e:
        out.append(vio('exception', f'{type(e).__name__}: {e}'))
    out.extend(PENDING)
    return out, dict(ops=2, n_inc=n, with_altitude=wa)
