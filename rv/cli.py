"""./check Cxx [--tier quick|thorough] [--seed N] [--replay path]"""
import argparse
import os
import sys
from rv import core


def main():
    ap = argparse.ArgumentParser()
    ap.add_argument('prop')
    ap.add_argument('--tier', default=os.environ.get('VERIF_TIER', 'quick'),
                    choices=['quick', 'thorough'])
    ap.add_argument('--seed', type=int, default=None)
    ap.add_argument('--replay', default=None)
    ap.add_argument('--no-write', action='store_true',
                    help='do not touch evidence/ or replays/ (used by the mutation zoo)')
    a = ap.parse_args()
    if a.no_write:
        os.environ['RV_NO_WRITE'] = '1'
    seed = a.seed
    if seed is None:
        try:
            seed = int(os.environ.get('VERIF_SEED', '0'))
        except ValueError:
            seed = 0
    return core.run_check(a.prop, a.tier, seed, a.replay)


if __name__ == '__main__':
    sys.exit(main())
