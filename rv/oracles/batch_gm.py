"""One-shot (non-recursive) Gauss-Markov estimator for a time-varying linear system.

x_{k+1} = Phi_k x_k + w_k,  w_k ~ N(0, Q_k),  x_0 ~ N(0, P0);  measurement rows
z_j = H_j x_{g(j)} + v_j, v_j ~ N(0, R_j) attached to grid index g(j).

The unknowns u = (x_0, w_0 .. w_{K-2}) are independent with block-diagonal
covariance; all grid states are X = L u with L the lower block-triangular
transition map.  The joint Gaussian of (X, z) is conditioned in one shot by a
Cholesky factorisation of the innovation covariance - no recursion, no Kalman
gain.  Returned: for every k the mean / covariance of x_k given all measurement
rows attached to grid indices <= k (what a causal filter must equal), and for
every measurement block its whitened predictive innovation given all earlier rows
(in the supplied order).
"""
import numpy as np
from scipy.linalg import cho_factor, cho_solve, cholesky, solve_triangular, block_diag


def transition_map(Phis, n):
    K = len(Phis) + 1
    L = np.zeros((K * n, K * n))
    for j in range(K):
        M = np.eye(n)
        L[j * n:(j + 1) * n, j * n:(j + 1) * n] = M
        for i in range(j + 1, K):
            M = Phis[i - 1] @ M
            L[i * n:(i + 1) * n, j * n:(j + 1) * n] = M
    return L


def solve(P0, Phis, Qs, meas):
    """meas: list of dicts(k=grid index, z, H (rows x n), R) in processing order."""
    n = len(P0)
    K = len(Phis) + 1
    Su = block_diag(P0, *Qs)
    L = transition_map(Phis, n)
    SX = L @ Su @ L.T
    SX = 0.5 * (SX + SX.T)
    rows, zs, Rs, gk = [], [], [], []
    for mj in meas:
        Hf = np.zeros((len(mj['z']), K * n))
        Hf[:, mj['k'] * n:(mj['k'] + 1) * n] = mj['H']
        rows.append(Hf)
        zs.append(np.asarray(mj['z'], float))
        Rs.append(np.asarray(mj['R'], float))
        gk.append(mj['k'])
    xs = np.zeros((K, n))
    Ps = np.zeros((K, n, n))
    cond = 1.0
    if rows:
        Hall = np.vstack(rows)
        zall = np.hstack(zs)
        Rall = block_diag(*Rs)
        gk_rows = np.repeat(gk, [len(z) for z in zs])
        HS = Hall @ SX
        Sfull = HS @ Hall.T + Rall
        Sfull = 0.5 * (Sfull + Sfull.T)
        cond = float(np.linalg.cond(Sfull))
    for k in range(K):
        Pk = SX[k * n:(k + 1) * n, k * n:(k + 1) * n]
        if rows:
            sel = gk_rows <= k
            if sel.any():
                S = Sfull[np.ix_(sel, sel)]
                C = HS[sel][:, k * n:(k + 1) * n].T          # Cov(x_k, z_sel)
                cf = cho_factor(S)
                xs[k] = C @ cho_solve(cf, zall[sel])
                Pk = Pk - C @ cho_solve(cf, C.T)
        Ps[k] = Pk
    innovations = []
    off = 0
    for j, mj in enumerate(meas):
        m = len(zs[j])
        cur = np.arange(off, off + m)
        S = Sfull[np.ix_(cur, cur)]
        mu = np.zeros(m)
        if off:
            prev = np.arange(off)
            Sp = Sfull[np.ix_(prev, prev)]
            Cc = Sfull[np.ix_(cur, prev)]
            cf = cho_factor(Sp)
            mu = Cc @ cho_solve(cf, zall[prev])
            S = S - Cc @ cho_solve(cf, Cc.T)
        innovations.append(solve_triangular(cholesky(0.5 * (S + S.T), lower=True), zs[j] - mu, lower=True))
        off += m
    return xs, Ps, innovations, cond


def van_loan(F, Qc, dt):
    """Textbook arrangement [[-F, Q], [0, F^T]]: Phi = E22^T, Qd = Phi E12 (not the arrangement pyins uses)."""
    from scipy.linalg import expm
    m = len(F)
    M = np.zeros((2 * m, 2 * m))
    M[:m, :m] = -F
    M[:m, m:] = Qc
    M[m:, m:] = F.T
    E = expm(M * dt)
    Phi = E[m:, m:].T
    Qd = Phi @ E[:m, m:]
    return Phi, 0.5 * (Qd + Qd.T)
