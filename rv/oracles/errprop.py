"""Measured error propagation through the real strapdown integrator (reference for C04).

Error-state coordinates are the library's own, re-implemented as the inverse of
`correct_pva`:  C_true = exp(phi) C_ins,  dv = v_ins - exp(phi)^T v_true,
dr = (lla_ins - lla_true) in NED metres.  `sensitivity` returns the central-
difference Jacobian of the error state at t + Delta with respect to the error
state at t (and to constant gyro / accelerometer errors), obtained by running the
real compute_increments_from_imu + Integrator on perturbed inputs.
"""
import numpy as np
import pandas as pd
from scipy.spatial.transform import Rotation

from rv.oracles import wgs84 as W

TRAJ = ['lat', 'lon', 'alt', 'VN', 'VE', 'VD', 'roll', 'pitch', 'heading']
GY = ['gyro_x', 'gyro_y', 'gyro_z']
AC = ['accel_x', 'accel_y', 'accel_z']
STEPS3 = np.array([1e3, 1e3, 1e3, 1.0, 1.0, 1.0, 1e-4, 1e-4, 1e-4])
IDX2 = [0, 1, 3, 4, 6, 7, 8]
GYRO_STEP = 1e-4      # rad/s
ACCEL_STEP = 1e-2     # m/s^2


def err_state(ins, tru):
    Ci = Rotation.from_euler('xyz', ins[6:9], degrees=True).as_matrix()
    Ct = Rotation.from_euler('xyz', tru[6:9], degrees=True).as_matrix()
    tp = Rotation.from_matrix(Ct @ Ci.T)
    phi = tp.as_rotvec()
    dv = ins[3:6] - tp.as_matrix().T @ tru[3:6]
    rn, _, rp = W.radii(ins[0], ins[2])
    dlon = (ins[1] - tru[1] + 180.0) % 360.0 - 180.0
    dr = np.array([np.deg2rad(ins[0] - tru[0]) * rn, np.deg2rad(dlon) * rp, -(ins[2] - tru[2])])
    return np.hstack([dr, dv, phi])


def apply_err(tru, x):
    """ins with err_state(ins, tru) = x (exact in velocity / attitude, first order in position)."""
    tp = Rotation.from_rotvec(x[6:9]).as_matrix()
    Ct = Rotation.from_euler('xyz', tru[6:9], degrees=True).as_matrix()
    Ci = tp.T @ Ct
    vi = tp.T @ tru[3:6] + x[3:6]
    rn, _, rp = W.radii(tru[0], tru[2])
    lla = np.array([tru[0] + np.rad2deg(x[0] / rn), tru[1] + np.rad2deg(x[1] / rp), tru[2] - x[2]])
    return np.hstack([lla, vi, Rotation.from_matrix(Ci).as_euler('xyz', degrees=True)])


def x3_from_x2(x2, v):
    return np.array([x2[0], x2[1], 0.0, x2[2], x2[3], v[1] * x2[4] - v[0] * x2[5], x2[4], x2[5], x2[6]])


class Propagator:
    """Runs the real strapdown pipeline over one filter step for a given IMU table."""

    def __init__(self, imu, with_altitude):
        from pyins import strapdown
        self.sd = strapdown
        self.imu = imu
        self.wa = with_altitude
        self.inc = strapdown.compute_increments_from_imu(imu, 'rate')
        self.t0 = float(imu.index[0])

    def run(self, pva_vals, gyro_e=None, acc_e=None, full=False):
        inc = self.inc
        if gyro_e is not None or acc_e is not None:
            im = self.imu.copy()
            if gyro_e is not None:
                im[GY] = im[GY].values + gyro_e
            if acc_e is not None:
                im[AC] = im[AC].values + acc_e
            inc = self.sd.compute_increments_from_imu(im, 'rate')
        pva = pd.Series(pva_vals, index=TRAJ, name=self.t0)
        I = self.sd.Integrator(pva, self.wa)
        I.integrate(inc)
        return I.trajectory if full else I.trajectory.iloc[-1].values.astype(float)


def sensitivity(prop, pva0, scale=1.0):
    """Returns S (n x n), Sg (n x 3), Sa (n x 3), nominal trajectory."""
    wa = prop.wa
    n = 9 if wa else 7
    nom = prop.run(pva0, full=True)
    end = nom.iloc[-1].values.astype(float)
    steps = STEPS3 * scale if wa else (STEPS3 * scale)[IDX2]

    def es(ins_end):
        e = err_state(ins_end, end)
        return e if wa else e[IDX2]
    S = np.zeros((n, n))
    for k in range(n):
        x = np.zeros(n)
        x[k] = steps[k]
        outs = []
        for sgn in (1, -1):
            x3 = sgn * x if wa else x3_from_x2(sgn * x, pva0[3:5])
            ins0 = apply_err(pva0, x3)
            if not wa:
                ins0[2] = pva0[2]
                ins0[5] = pva0[5]
            outs.append(es(prop.run(ins0)))
        S[:, k] = (outs[0] - outs[1]) / (2 * steps[k])
    Sg = np.zeros((n, 3))
    Sa = np.zeros((n, 3))
    for k in range(3):
        e = np.zeros(3)
        e[k] = GYRO_STEP * scale
        Sg[:, k] = (es(prop.run(pva0, gyro_e=e)) - es(prop.run(pva0, gyro_e=-e))) / (2 * e[k])
        e = np.zeros(3)
        e[k] = ACCEL_STEP * scale
        Sa[:, k] = (es(prop.run(pva0, acc_e=e)) - es(prop.run(pva0, acc_e=-e))) / (2 * e[k])
    return S, Sg, Sa, nom


def model_response(F, Bg, Ba, h):
    """Transition and constant-input responses of x' = F(t) x + B(t) u on the grid (product of exponentials,
    midpoint matrices): returns Phi, Gg, Ga with x(T) = Phi x(0) + Gg u_g + Ga u_a."""
    from scipy.linalg import expm
    n = F.shape[1]
    Phi = np.eye(n)
    Gg = np.zeros((n, 3))
    Ga = np.zeros((n, 3))
    for i in range(len(F) - 1):
        Fm = 0.5 * (F[i] + F[i + 1])
        Bgm = 0.5 * (Bg[i] + Bg[i + 1])
        Bam = 0.5 * (Ba[i] + Ba[i + 1])
        # augmented exponential: [[F, B], [0, 0]]
        M = np.zeros((n + 6, n + 6))
        M[:n, :n] = Fm
        M[:n, n:n + 3] = Bgm
        M[:n, n + 3:] = Bam
        E = expm(M * h)
        Gg = E[:n, :n] @ Gg + E[:n, n:n + 3]
        Ga = E[:n, :n] @ Ga + E[:n, n + 3:]
        Phi = E[:n, :n] @ Phi
    return Phi, Gg, Ga
