"""Exact body-frame integrals over sampling intervals (reference for C15).

For given body angular rate w(t) and specific force f(t) returns, per interval
[t_k, t_k+1], the exact rotation vector of the body (log of C_{b_k}^{b_{k+1}}^T ...)
and the exact integral of specific force resolved in the start-of-interval body
frame, from one DOP853 solve of the attitude ODE at rtol 1e-13.
"""
import numpy as np
from scipy.integrate import solve_ivp
from scipy.spatial.transform import Rotation


def exact_increments(tt, w, f):
    """tt: stamps; w, f: callables t -> (3,).  Returns theta (n-1,3), dv (n-1,3)."""
    def rhs(t, y):
        C = y[:9].reshape(3, 3)            # b(t) -> b(t0)
        om = w(t)
        W = np.array([[0, -om[2], om[1]], [om[2], 0, -om[0]], [-om[1], om[0], 0]])
        return np.hstack([(C @ W).ravel(), C @ f(t)])
    y0 = np.hstack([np.eye(3).ravel(), np.zeros(3)])
    sol = solve_ivp(rhs, (tt[0], tt[-1]), y0, method='DOP853', rtol=1e-13, atol=1e-16, t_eval=tt,
                    max_step=(tt[-1] - tt[0]) / 16)
    C = sol.y[:9].T.reshape(-1, 3, 3)
    s = sol.y[9:].T
    rel = np.einsum('kji,kjl->kil', C[:-1], C[1:])          # C_k^T C_{k+1}
    th = Rotation.from_matrix(rel).as_rotvec()
    dv = np.einsum('kji,kj->ki', C[:-1], s[1:] - s[:-1])
    return th, dv


class LinearSignal:
    def __init__(self, a, b, d, e):
        self.a, self.b, self.d, self.e = [np.asarray(x, float) for x in (a, b, d, e)]

    def w(self, t):
        return self.a + self.b * t

    def f(self, t):
        return self.d + self.e * t

    def W(self, t):       # antiderivatives, vectorised over t
        t = np.asarray(t, float)[:, None]
        return self.a * t + self.b * t ** 2 / 2

    def F(self, t):
        t = np.asarray(t, float)[:, None]
        return self.d * t + self.e * t ** 2 / 2

    def wmax(self, T):
        return float(np.abs(self.a).max() + np.abs(self.b).max() * T)

    freq = 0.0


class SineSignal:
    def __init__(self, a, wf, wp, d, ff, fp, g):
        self.a, self.wf, self.wp, self.d, self.ff, self.fp, self.g = [np.asarray(x, float) for x in (a, wf, wp, d, ff, fp, g)]
        self.freq = float(max(self.wf.max(), self.ff.max()))

    def w(self, t):
        return self.a * np.sin(self.wf * t + self.wp)

    def f(self, t):
        return self.d * np.sin(self.ff * t + self.fp) + self.g

    def W(self, t):
        t = np.asarray(t, float)[:, None]
        return -self.a / self.wf * np.cos(self.wf * t + self.wp)

    def F(self, t):
        t = np.asarray(t, float)[:, None]
        return -self.d / self.ff * np.cos(self.ff * t + self.fp) + self.g * t

    def wmax(self, T):
        return float(np.abs(self.a).max())
