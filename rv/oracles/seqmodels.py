"""Sequential models for filter scheduling: offline checkers over the recorded event log.

Feedback filter (C09): exactly-once / order / conservation of IMU increments and
measurement samples.  Feedforward filter (C10): grid progress and exactly-once use
of measurement samples.
"""
import numpy as np

from rv.core import vio


def finite_table(df):
    return bool(np.isfinite(np.asarray(df.values, dtype=float)).all()) if len(df.columns) and len(df) else True


def check_feedback(events, result, increments, sensors, start, loop):
    out = []
    inc_idx = np.asarray(increments.index, float)
    end = inc_idx[-1]
    # (1) integrate batches: concatenation == increments.index, no empty batch, no repeats
    batches = [e['times'] for e in events if e['kind'] == 'integrate']
    flat = [x for b in batches for x in b]
    if any(len(b) == 0 for b in batches):
        out.append(vio('empty_batch', f'{sum(len(b) == 0 for b in batches)} empty increment batch(es) were integrated'))
    if len(flat) != len(inc_idx) or not np.array_equal(np.asarray(flat, float), inc_idx):
        seen = {}
        for x in flat:
            seen[x] = seen.get(x, 0) + 1
        dup = sorted(k for k, v in seen.items() if v > 1)[:5]
        missing = [float(x) for x in inc_idx if x not in seen][:5]
        out.append(vio('increments_not_exactly_once', f'integrated increment stamps are not the increments index in order: '
                       f'{len(flat)} integrated vs {len(inc_idx)} supplied; integrated twice {dup}; never integrated {missing}'))
    # (2) trajectory index
    tr = result['trajectory']
    ti = np.asarray(tr.index, float)
    exp = np.r_[start, inc_idx]
    if len(ti) != len(exp) or not np.array_equal(ti, exp):
        out.append(vio('trajectory_index', f'trajectory index has {len(ti)} stamps, expected start + every increment time once ({len(exp)}); '
                       f'strictly increasing: {bool((np.diff(ti) > 0).all())}'))
    if not finite_table(tr):
        out.append(vio('trajectory_nonfinite', 'non-finite values in the trajectory'))
    # (3) measurement samples
    hits = {}
    all_hits = []
    for e in events:
        if e['kind'] == 'compute_matrices' and e['hit']:
            hits.setdefault(e['cls'], []).append(e['time'])
            all_hits.append((e['time'], e['cls']))
    if len(all_hits) > 1 and not (np.diff([t for t, _ in all_hits]) >= 0).all():
        k = int(np.argmax(np.diff([t for t, _ in all_hits]) < 0))
        out.append(vio('measurements_out_of_time_order', f'samples are not processed in time order across sensors: {all_hits[k]} before {all_hits[k + 1]}'))
    for m in sensors:
        name = type(m).__name__
        samples = np.asarray(m.data.index, float)
        inside = np.sort(samples[(samples >= start) & (samples < end)])
        h = np.asarray(hits.get(name, []), float)
        if len(h) != len(inside) or not np.array_equal(h, inside):
            lost = [float(x) for x in inside if x not in set(h.tolist())][:5]
            extra = [float(x) for x in h if x not in set(inside.tolist())][:5]
            out.append(vio('measurement_not_exactly_once', f'{name}: {len(inside)} samples in [start, end) but {len(h)} were processed '
                           f'(in time order: {bool((np.diff(h) > 0).all()) if len(h) > 1 else True}); never processed {lost}; '
                           f'processed though outside / twice {extra}'))
        inn = result['innovations'].get(name)
        if inn is None:
            out.append(vio('innovations_missing', f'{name}: no innovations table'))
            continue
        ii = np.asarray(inn.index, float)
        if len(ii) != len(inside) or not np.array_equal(ii, inside):
            out.append(vio('innovation_rows', f'{name}: innovation rows stamped {ii[:6].tolist()}.. ({len(ii)}) but the samples in '
                           f'[start, end) are {inside[:6].tolist()}.. ({len(inside)})'))
        elif len(inn) and not np.isfinite(np.asarray(inn.values, float)).all():
            out.append(vio('innovation_nonfinite', f'{name}: non-finite normalised innovation'))
    # (4) sd / estimate tables
    tset = set(ti.tolist())
    for key in ('trajectory_sd', 'gyro', 'gyro_sd', 'accel', 'accel_sd'):
        tab = result[key]
        idx = np.asarray(tab.index, float)
        if len(idx) > 1 and not (np.diff(idx) > 0).all():
            out.append(vio('table_index_order', f'{key}: index not strictly increasing'))
        if not all(x in tset for x in idx.tolist()):
            out.append(vio('table_index_subset', f'{key}: index is not a subset of the trajectory times'))
        if not finite_table(tab):
            out.append(vio('table_nonfinite', f'{key}: non-finite values'))
    idxs = [np.asarray(result[k].index, float) for k in ('trajectory_sd', 'gyro', 'gyro_sd', 'accel', 'accel_sd')]
    if any(len(i) != len(idxs[0]) or not np.array_equal(i, idxs[0]) for i in idxs[1:]):
        out.append(vio('table_index_mismatch', 'sd / estimate tables are not indexed identically'))
    # (5) cursors
    bad = loop.nondecreasing()
    if bad is not None:
        k, name, a, b = bad
        out.append(vio('cursor_backwards', f'loop cursor {name} moved backwards at iteration {k}: {a} -> {b}'))
    return out


def check_feedforward(events, result, times, sensors, time_step, loop):
    out = []
    times = np.asarray(times, float)
    start, end = times[0], times[-1]
    keys = ('trajectory', 'trajectory_sd', 'gyro', 'gyro_sd', 'accel', 'accel_sd')
    ri = np.asarray(result['trajectory'].index, float)
    tset = set(times.tolist())
    if len(ri) == 0 or ri[0] != start:
        out.append(vio('grid_start', f'result does not start at the first input time ({ri[:1].tolist()} vs {start})'))
    if len(ri) > 1 and not (np.diff(ri) > 0).all():
        d = ri[1:][np.diff(ri) <= 0][:5]
        out.append(vio('grid_not_increasing', f'result index not strictly increasing (repeats / steps back at {d.tolist()})'))
    if not all(x in tset for x in ri.tolist()):
        out.append(vio('grid_subset', 'result index is not a subset of the input times'))
    else:
        pos = np.searchsorted(times, ri)
        for a, b, pa in zip(ri[:-1], ri[1:], pos[:-1]):
            gap = times[pa + 1] - a if pa + 1 < len(times) else 0.0
            if b - a > max(time_step, gap) * (1 + 1e-12):
                out.append(vio('grid_step_too_long', f'step {a} -> {b} ({b - a:.6g} s) exceeds max(time_step={time_step:.6g}, '
                               f'local sampling gap={gap:.6g})'))
                break
    for k in keys:
        tab = result[k]
        if not np.array_equal(np.asarray(tab.index, float), ri):
            out.append(vio('table_index_mismatch', f'{k}: index differs from the trajectory table'))
        if not finite_table(tab):
            out.append(vio('table_nonfinite', f'{k}: non-finite values'))
    hits = {}
    all_hits = []
    for e in events:
        if e['kind'] == 'compute_matrices' and e['hit']:
            hits.setdefault(e['cls'], []).append(e['time'])
            all_hits.append((e['time'], e['cls']))
    if len(all_hits) > 1 and not (np.diff([t for t, _ in all_hits]) >= 0).all():
        k = int(np.argmax(np.diff([t for t, _ in all_hits]) < 0))
        out.append(vio('measurements_out_of_time_order', f'samples are not used in time order across sensors: {all_hits[k]} before {all_hits[k + 1]}'))
    for m in sensors:
        name = type(m).__name__
        samples = np.asarray(m.data.index, float)
        inside = np.sort(samples[(samples >= start) & (samples < end)])
        h = np.asarray(hits.get(name, []), float)
        if len(h) != len(inside) or not np.array_equal(h, inside):
            lost = [float(x) for x in inside if x not in set(h.tolist())][:5]
            extra = [float(x) for x in h if x not in set(inside.tolist())][:5]
            out.append(vio('measurement_not_exactly_once', f'{name}: {len(inside)} samples in [start, end) but {len(h)} were used '
                           f'(time order {bool((np.diff(h) > 0).all()) if len(h) > 1 else True}); never used {lost}; used though outside / twice {extra}'))
        inn = result['innovations'].get(name)
        if inn is None:
            out.append(vio('innovations_missing', f'{name}: no innovations table'))
        else:
            if len(inn) != len(inside):
                out.append(vio('innovation_rows', f'{name}: {len(inn)} innovation rows for {len(inside)} samples in [start, end)'))
            elif len(inn) and not np.isfinite(np.asarray(inn.values, float)).all():
                out.append(vio('innovation_nonfinite', f'{name}: non-finite normalised innovation'))
            ii = np.asarray(inn.index, float)
            if len(ii) > 1 and not (np.diff(ii) >= 0).all():
                out.append(vio('innovation_order', f'{name}: innovation rows not in time order'))
    for e in events:
        if e['kind'] == 'process_matrices' and not e['finite']:
            out.append(vio('propagation_nonfinite', f'non-finite system / process matrices for a step of {e["dt"]} s'))
            break
    bad = loop.nondecreasing()
    if bad is not None:
        k, name, a, b = bad
        out.append(vio('cursor_backwards', f'loop cursor {name} moved backwards at iteration {k}: {a} -> {b}'))
    return out
