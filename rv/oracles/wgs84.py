"""Closed-form WGS-84 ellipsoid geometry and normal gravity (independent re-typing).

Only the defining constants are shared with pyins *by value*; a changed constant
in pyins.earth therefore shows up as a disagreement.
"""
import numpy as np
import mpmath as mp

A = 6378137.0
E2 = 6.6943799901413e-3
GE = 9.7803253359
GP = 9.8321849378
RATE = 7.292115e-5
B = A * np.sqrt(1 - E2)
K_SOM = B * GP / (A * GE) - 1          # Somigliana constant
D2R = np.pi / 180


def radii(lat_deg, alt):
    """Meridian radius R_N+h, prime-vertical radius R_E+h, parallel radius."""
    s = np.sin(np.asarray(lat_deg, float) * D2R)
    c = np.cos(np.asarray(lat_deg, float) * D2R)
    w2 = 1 - E2 * s * s
    re = A / np.sqrt(w2)
    rn = A * (1 - E2) / w2 ** 1.5
    return rn + alt, re + alt, (re + alt) * c


def ecef(lat_deg, lon_deg, alt):
    lat = np.asarray(lat_deg, float) * D2R
    lon = np.asarray(lon_deg, float) * D2R
    s, c = np.sin(lat), np.cos(lat)
    N = A / np.sqrt(1 - E2 * s * s)
    return np.stack([(N + alt) * c * np.cos(lon), (N + alt) * c * np.sin(lon),
                     (N * (1 - E2) + alt) * s], axis=-1)


def ecef_mp(lat_deg, lon_deg, alt, dps=40):
    with mp.workdps(dps):
        lat = mp.mpf(float(lat_deg)) * mp.pi / 180
        lon = mp.mpf(float(lon_deg)) * mp.pi / 180
        h = mp.mpf(float(alt))
        a, e2 = mp.mpf(A), mp.mpf(E2)
        s, c = mp.sin(lat), mp.cos(lat)
        N = a / mp.sqrt(1 - e2 * s * s)
        return np.array([float((N + h) * c * mp.cos(lon)), float((N + h) * c * mp.sin(lon)),
                         float((N * (1 - e2) + h) * s)])


def ned_axes(lat_deg, lon_deg):
    """Columns: unit north, east, down vectors expressed in ECEF. Shape (..., 3, 3)."""
    lat = np.asarray(lat_deg, float) * D2R
    lon = np.asarray(lon_deg, float) * D2R
    sl, cl, so, co = np.sin(lat), np.cos(lat), np.sin(lon), np.cos(lon)
    n = np.stack([-sl * co, -sl * so, cl], axis=-1)
    e = np.stack([-so, co, np.zeros_like(sl)], axis=-1)
    d = np.stack([-cl * co, -cl * so, -sl], axis=-1)
    return np.stack([n, e, d], axis=-1)


def gravity(lat_deg, alt):
    """Somigliana normal gravity on the ellipsoid with the linear free-air factor."""
    s2 = np.sin(np.asarray(lat_deg, float) * D2R) ** 2
    return GE * (1 + K_SOM * s2) / np.sqrt(1 - E2 * s2) * (1 - 2 * np.asarray(alt, float) / A)


def gravitation_ecef(lat_deg, lon_deg, alt):
    """Mass attraction = apparent gravity vector + Omega x (Omega x r)."""
    ax = ned_axes(lat_deg, lon_deg)
    g_vec = gravity(lat_deg, alt)[..., None] * ax[..., :, 2]
    r = ecef(lat_deg, lon_deg, alt)
    cent = np.zeros_like(r)
    cent[..., 0] = -RATE ** 2 * r[..., 0]
    cent[..., 1] = -RATE ** 2 * r[..., 1]
    return g_vec + cent


def rate_n(lat_deg):
    lat = np.asarray(lat_deg, float) * D2R
    return np.stack([RATE * np.cos(lat), np.zeros_like(lat), -RATE * np.sin(lat)], axis=-1)


def transport_rate(lat_deg, alt, v):
    rn, re, _ = radii(lat_deg, alt)
    t = np.tan(np.asarray(lat_deg, float) * D2R)
    return np.stack([v[..., 1] / re, -v[..., 0] / rn, -v[..., 1] * t / re], axis=-1)


def geodetic_newton(r, iters=12):
    """Own ECEF -> geodetic by fixed-point iteration (Bowring-style), vectorised."""
    x, y, z = r[..., 0], r[..., 1], r[..., 2]
    lon = np.arctan2(y, x)
    p = np.hypot(x, y)
    lat = np.arctan2(z, p * (1 - E2))
    for _ in range(iters):
        s = np.sin(lat)
        N = A / np.sqrt(1 - E2 * s * s)
        lat = np.arctan2(z + E2 * N * s, p)
    s = np.sin(lat)
    c = np.cos(lat)
    N = A / np.sqrt(1 - E2 * s * s)
    alt = np.where(np.abs(c) > 0.1, p / np.where(np.abs(c) > 0.1, c, 1) - N,
                   z / np.where(np.abs(s) > 0.1, s, 1) - N * (1 - E2))
    return np.stack([lat / D2R, lon / D2R, alt], axis=-1)
