"""Analytic truth motions: exact PVA, body angular rate and specific force.

A motion is six scalar channels  lat(t), lon(t), alt(t), roll(t), pitch(t), heading(t),
each  c0 + c1 t + sum_k a_k sin(w_k t + p_k)  (angles in radians, altitude in metres).
From textbook rigid-body kinematics on the rotating WGS-84 ellipsoid (Groves ch. 5)
it yields *exactly*

    v   = [(R_N + h) lat', (R_E + h) cos(lat) lon', -h']                     NED velocity
    C   = Rz(heading) Ry(pitch) Rx(roll)                                      body -> NED
    w_b = C^T (w_ie + w_en) + w_nb                                            gyro signal
    f_b = C^T ( v' + (2 w_ie + w_en) x v - g_n(lat, h) )                      accelerometer signal

so the exact navigation solution of that IMU signal IS the motion: no ODE solver
stands between the oracle and the answer.  Written by hand (no pyins imports);
`selftest()` checks the derivatives against high-order finite differences.
"""
import numpy as np

A = 6378137.0
E2 = 6.6943799901413e-3
GE = 9.7803253359
GP = 9.8321849378
RATE = 7.292115e-5
KS = (1 - E2) ** 0.5 * GP / GE - 1
CH = ['lat', 'lon', 'alt', 'roll', 'pitch', 'heading']
_GLX, _GLW = np.polynomial.legendre.leggauss(10)


def chan(p, t, order):
    """p = [c0, c1, [a, w, ph], ...] ; returns the derivative of the given order at t."""
    c0, c1 = p[0], p[1]
    if order == 0:
        y = c0 + c1 * t
    elif order == 1:
        y = c1 + 0 * t
    else:
        y = 0 * t
    for a, w, ph in p[2:]:
        arg = w * t + ph
        if order == 0:
            y = y + a * np.sin(arg)
        elif order == 1:
            y = y + a * w * np.cos(arg)
        elif order == 2:
            y = y - a * w * w * np.sin(arg)
    return y


def gravity(lat, alt):
    s2 = np.sin(lat) ** 2
    return GE * (1 + KS * s2) / np.sqrt(1 - E2 * s2) * (1 - 2 * alt / A)


class Motion:
    def __init__(self, params):
        self.p = params          # dict channel -> [c0, c1, [a, w, ph], ...]

    def eval(self, t):
        t = np.asarray(t, float)
        p = self.p
        lat, dlat, ddlat = (chan(p['lat'], t, k) for k in range(3))
        lon, dlon, ddlon = (chan(p['lon'], t, k) for k in range(3))
        alt, dalt, ddalt = (chan(p['alt'], t, k) for k in range(3))
        ro, dro = chan(p['roll'], t, 0), chan(p['roll'], t, 1)
        pi, dpi = chan(p['pitch'], t, 0), chan(p['pitch'], t, 1)
        he, dhe = chan(p['heading'], t, 0), chan(p['heading'], t, 1)
        sl, cl = np.sin(lat), np.cos(lat)
        W = 1 - E2 * sl * sl
        RE = A / np.sqrt(W)
        RN = A * (1 - E2) / W ** 1.5
        dRE = A * E2 * sl * cl / W ** 1.5
        dRN = 3 * A * (1 - E2) * E2 * sl * cl / W ** 2.5
        vN = (RN + alt) * dlat
        vE = (RE + alt) * cl * dlon
        vD = -dalt
        aN = (dRN * dlat + dalt) * dlat + (RN + alt) * ddlat
        aE = (dRE * dlat + dalt) * cl * dlon - (RE + alt) * sl * dlat * dlon + (RE + alt) * cl * ddlon
        aD = -ddalt
        v = np.stack([vN, vE, vD], axis=-1)
        dv = np.stack([aN, aE, aD], axis=-1)
        w_ie = np.stack([RATE * cl, 0 * t, -RATE * sl], axis=-1)
        w_en = np.stack([dlon * cl, -dlat, -dlon * sl], axis=-1)
        g = gravity(lat, alt)
        f_n = dv + np.cross(2 * w_ie + w_en, v)
        f_n[..., 2] -= g
        cr, sr, cp, sp, ch, sh = np.cos(ro), np.sin(ro), np.cos(pi), np.sin(pi), np.cos(he), np.sin(he)
        C = np.empty(t.shape + (3, 3))
        C[..., 0, 0] = ch * cp
        C[..., 0, 1] = ch * sp * sr - sh * cr
        C[..., 0, 2] = ch * sp * cr + sh * sr
        C[..., 1, 0] = sh * cp
        C[..., 1, 1] = sh * sp * sr + ch * cr
        C[..., 1, 2] = sh * sp * cr - ch * sr
        C[..., 2, 0] = -sp
        C[..., 2, 1] = cp * sr
        C[..., 2, 2] = cp * cr
        w_nb = np.stack([dro - dhe * sp, dpi * cr + dhe * sr * cp, -dpi * sr + dhe * cr * cp], axis=-1)
        w_b = np.einsum('...ji,...j->...i', C, w_ie + w_en) + w_nb
        f_b = np.einsum('...ji,...j->...i', C, f_n)
        return dict(lat=lat, lon=lon, alt=alt, v=v, rph=np.stack([ro, pi, he], axis=-1), C=C, w_b=w_b, f_b=f_b,
                    f_n=f_n, dv=dv)

    def trajectory(self, t):
        """Trajectory table in pyins conventions (degrees)."""
        import pandas as pd
        y = self.eval(t)
        rph = np.rad2deg(y['rph'])
        data = np.column_stack([np.rad2deg(y['lat']), np.rad2deg(y['lon']), y['alt'], y['v'], rph])
        return pd.DataFrame(data, index=pd.Index(np.asarray(t, float), name='time'),
                            columns=['lat', 'lon', 'alt', 'VN', 'VE', 'VD', 'roll', 'pitch', 'heading'])

    def imu(self, t, sensor_type):
        """Exact IMU table for the stamps t: instantaneous (rate) or interval integrals (increment)."""
        import pandas as pd
        t = np.asarray(t, float)
        cols = ['gyro_x', 'gyro_y', 'gyro_z', 'accel_x', 'accel_y', 'accel_z']
        if sensor_type == 'rate':
            y = self.eval(t)
            data = np.column_stack([y['w_b'], y['f_b']])
        else:
            h = np.diff(t)
            inc = np.empty((len(h), 6))
            B = 20000                          # blocks of intervals: bounds memory on Schuler-length runs
            for s0 in range(0, len(h), B):
                hb = h[s0:s0 + B]
                nodes = (t[s0:s0 + len(hb), None] + 0.5 * hb[:, None] * (_GLX[None, :] + 1)).ravel()
                y = self.eval(nodes)
                sig = np.column_stack([y['w_b'], y['f_b']]).reshape(len(hb), len(_GLX), 6)
                inc[s0:s0 + len(hb)] = (sig * _GLW[None, :, None]).sum(axis=1) * 0.5 * hb[:, None]
            # "before" sample: integral over an equal interval preceding the first stamp
            n0 = t[0] - h[0] + 0.5 * h[0] * (_GLX + 1)
            y0 = self.eval(n0)
            first = (np.column_stack([y0['w_b'], y0['f_b']]) * _GLW[:, None]).sum(axis=0) * 0.5 * h[0]
            data = np.vstack([first, inc])
        return pd.DataFrame(data, index=pd.Index(t, name='time'), columns=cols)

    def extremes(self, T, n=2001):
        y = self.eval(np.linspace(0, T, n))
        return dict(w_max=float(np.abs(y['w_b']).max()), f_max=float(np.linalg.norm(y['f_b'], axis=1).max()),
                    speed_max=float(np.linalg.norm(y['v'], axis=1).max()), lat_max=float(np.abs(np.rad2deg(y['lat'])).max()),
                    pitch_max=float(np.abs(np.rad2deg(y['rph'][:, 1])).max()))


def random_motion(rng, T, aggressive=1.0, lat_range=(-85, 85), speed_max=300.0, alt_range=(-500, 20000), gentle=False, closed=False):
    """Stratified random motion whose |lat| stays within 85 deg over [0, T]."""
    R = 6.4e6
    for _ in range(50):
        lat0 = np.deg2rad(rng.uniform(*lat_range))
        lon0 = np.deg2rad(rng.uniform(-180, 180))
        if rng.random() < 0.15:
            lon0 = np.deg2rad(rng.choice([-179.999, 179.999]))
        alt0 = rng.uniform(*alt_range)
        spd = rng.uniform(0, speed_max) * (1.0 if rng.random() < 0.8 else 0.02)
        hd = rng.uniform(0, 2 * np.pi)
        p = {}

        def sines(k, amp_fun, wlo, whi):
            out = []
            for _ in range(k):
                w = rng.uniform(wlo, whi)
                out.append([float(amp_fun(w)), float(w), float(rng.uniform(0, 2 * np.pi))])
            return out
        acc = rng.uniform(0, 6.0) * aggressive * (0.1 if gentle else 1.0)          # horizontal acceleration amplitude m/s^2
        p['lat'] = [float(lat0), float(spd * np.cos(hd) / R)] + sines(2, lambda w: acc / 2 / w ** 2 / R, 0.05, 1.5)
        if closed:
            # out-and-back in latitude: whole periods over [0, T], no drift, so the last sample is back at the starting latitude
            k = int(rng.integers(1, 3))
            w = 2 * np.pi * k / T
            p['lat'] = [float(lat0), 0.0, [float(min(spd, 250.0) / w / R), float(w), 0.0], [0.0, 1.0, 0.0]]
        p['lon'] = [float(lon0), float(spd * np.sin(hd) / R / np.cos(lat0))] + sines(2, lambda w: acc / 2 / w ** 2 / R / np.cos(lat0), 0.05, 1.5)
        vacc = rng.uniform(0, 4.0) * aggressive * (0.1 if gentle else 1.0)
        p['alt'] = [float(alt0), float(rng.uniform(-5, 5) * (0.1 if gentle else 1.0))] + sines(2, lambda w: vacc / 2 / w ** 2, 0.05, 1.5)
        ra = rng.uniform(0, 1.2) * aggressive * (0.05 if gentle else 1.0)             # attitude rate amplitude rad/s per channel
        p['roll'] = [float(rng.uniform(-np.pi, np.pi)), 0.0] + sines(2, lambda w: ra / 2 / w, 0.3, 5.0)
        p['pitch'] = [float(rng.uniform(-1.2, 1.2)), 0.0] + sines(2, lambda w: min(ra / 2 / w, 0.12), 0.3, 5.0)
        p['heading'] = [float(rng.uniform(-np.pi, np.pi)), float(rng.uniform(-0.3, 0.3) * aggressive * (0.05 if gentle else 1.0))] + \
            sines(2, lambda w: ra / 2 / w, 0.3, 5.0)
        # a 90-degree phase between two attitude axes at a common frequency -> coning is present
        p['pitch'][2][1] = p['roll'][2][1]
        p['pitch'][2][2] = p['roll'][2][2] + np.pi / 2
        m = Motion(p)
        ex = m.extremes(T)
        if ex['lat_max'] <= 85 and ex['speed_max'] <= 320 and ex['pitch_max'] <= 88 and ex['w_max'] <= 3.2 and ex['f_max'] <= 25:
            return m, ex
    raise RuntimeError('could not draw an admissible motion')


def special_motion(rng, T, kind):
    """Motions in which some physical quantity (nearly) VANISHES - regimes a uniform draw of speeds and headings practically never visits and in
    which 'negligible, skip it' shortcuts of an implementation become active:
      inertial_null  the local-level frame does not rotate in inertial space: westward flight at the Earth-surface speed of the latitude
                     (transport rate cancels Earth rate; |lat| 52..78 so that the speed stays below 300 m/s)
      rest           a vehicle standing still with constant attitude (body rate = Earth rate only)
      steady         straight and level at constant velocity and attitude
      polar          (not a vanishing quantity but the other end of 'any initial position') a start 10..170 km from a pole, passing it at a
                     closest distance of >= 3 km: cos(lat) down to 5e-4, tan(lat) up to 2000, the level frame turning with the meridians
    """
    R = 6.4e6
    for _ in range(50):
        p = {}
        lon0 = np.deg2rad(rng.uniform(-180, 180))
        alt0 = float(rng.uniform(0, 12000))
        att = [float(rng.uniform(-np.pi, np.pi)), float(rng.uniform(-1.0, 1.0)), float(rng.uniform(-np.pi, np.pi))]
        if kind == 'inertial_null':
            lat0 = np.deg2rad(rng.choice([-1, 1]) * rng.uniform(52, 78))
            u = rng.uniform(-0.02, 0.02) if rng.random() < 0.7 else rng.uniform(-0.1, 0.1)
            p['lat'] = [float(lat0), float(rng.uniform(-30, 30) / R), [float(0.2 / 0.3 ** 2 / R), 0.3, float(rng.uniform(0, 6))]]
            p['lon'] = [float(lon0), float(-RATE * (1 + u)), [float(0.2 / 0.4 ** 2 / R / np.cos(lat0)), 0.4, float(rng.uniform(0, 6))]]
            p['alt'] = [alt0, float(rng.uniform(-1, 1)), [2.0, 0.3, 0.0]]
            ra = float(rng.choice([0.0, 0.05]))
        elif kind == 'rest':
            lat0 = np.deg2rad(rng.uniform(-80, 80))
            p['lat'], p['lon'], p['alt'] = [float(lat0), 0.0], [float(lon0), 0.0], [alt0, 0.0]
            ra = 0.0
        elif kind == 'polar':
            sg = float(rng.choice([-1, 1]))
            lat0 = np.deg2rad(sg * (rng.uniform(88.5, 89.9) if rng.random() < 0.4 else rng.uniform(89.4, 89.95)))
            spd, hd = rng.uniform(0, 120), rng.uniform(0, 2 * np.pi)
            p['lat'] = [float(lat0), float(spd * np.cos(hd) / R), [float(0.3 / 0.3 ** 2 / R), 0.3, float(rng.uniform(0, 6))]]
            p['lon'] = [float(lon0), float(spd * np.sin(hd) / R / np.cos(lat0)), [float(0.3 / 0.4 ** 2 / R / np.cos(lat0)), 0.4, float(rng.uniform(0, 6))]]
            p['alt'] = [alt0, float(rng.uniform(-1, 1)), [2.0, 0.3, 0.0]]
            ra = float(rng.choice([0.0, 0.05, 0.4]))
        else:
            lat0 = np.deg2rad(rng.uniform(-75, 75))
            spd, hd = rng.uniform(5, 280), rng.uniform(0, 2 * np.pi)
            p['lat'] = [float(lat0), float(spd * np.cos(hd) / R)]
            p['lon'] = [float(lon0), float(spd * np.sin(hd) / R / np.cos(lat0))]
            p['alt'] = [alt0, 0.0]
            ra = 0.0
        for c_, a0 in zip(('roll', 'pitch', 'heading'), att):
            p[c_] = [a0, 0.0] + ([[ra / 2 / 0.7, 0.7, float(rng.uniform(0, 6))]] if ra else [])
        m = Motion(p)
        ex = m.extremes(T)
        if ex['lat_max'] <= (89.97 if kind == 'polar' else 85) and ex['speed_max'] <= 320 and ex['pitch_max'] <= 88:
            return m, ex
    raise RuntimeError('could not draw an admissible special motion')


def selftest():
    """Derivatives vs 6th-order central differences; returns max relative discrepancy."""
    rng = np.random.Generator(np.random.PCG64(1))
    worst = 0.0
    for _ in range(5):
        m, _ = random_motion(rng, 20.0)
        t = np.linspace(1, 19, 37)
        h = 1e-3
        y = m.eval(t)

        def d6(f):
            return (-f(t - 3 * h) + 9 * f(t - 2 * h) - 45 * f(t - h) + 45 * f(t + h) - 9 * f(t + 2 * h) + f(t + 3 * h)) / (60 * h)
        dv_fd = d6(lambda s: m.eval(s)['v'])
        worst = max(worst, np.abs(dv_fd - y['dv']).max() / (np.abs(y['dv']).max() + 1e-3))
        # velocity from position: ECEF derivative rotated to NED
        from rv.oracles import wgs84 as Wg
        def recef(s):
            ys = m.eval(s)
            return Wg.ecef(np.rad2deg(ys['lat']), np.rad2deg(ys['lon']), ys['alt'])
        ve = d6(recef)
        ax = Wg.ned_axes(np.rad2deg(y['lat']), np.rad2deg(y['lon']))
        vn = np.einsum('nji,nj->ni', ax, ve)
        worst = max(worst, np.abs(vn - y['v']).max() / (np.abs(y['v']).max() + 1e-3))
        # body rate: C' = C [w_nb x] ... check w_ib through d/dt of C_i^b is left to the navode cross-check
        dC = d6(lambda s: m.eval(s)['C'])
        Wx = np.einsum('nji,njk->nik', y['C'], dC)         # C^T C' = [w_nb^b x]
        w_nb = np.stack([Wx[:, 2, 1], Wx[:, 0, 2], Wx[:, 1, 0]], axis=1)
        lat = y['lat']
        w_ie = np.stack([RATE * np.cos(lat), 0 * lat, -RATE * np.sin(lat)], axis=1)
        dlat = d6(lambda s: m.eval(s)['lat'])
        dlon = d6(lambda s: m.eval(s)['lon'])
        w_en = np.stack([dlon * np.cos(lat), -dlat, -dlon * np.sin(lat)], axis=1)
        w_b = np.einsum('nji,nj->ni', y['C'], w_ie + w_en) + w_nb
        worst = max(worst, np.abs(w_b - y['w_b']).max() / (np.abs(y['w_b']).max() + 1e-6))
    return float(worst)
