"""High-precision linear algebra references (mpmath, 50 digits).

Written independently of pyins: textbook formulas only.
"""
import numpy as np
import mpmath as mp

DPS = 50


def tomp(a):
    a = np.asarray(a, dtype=float)
    if a.ndim == 1:
        a = a.reshape(-1, 1)
    return mp.matrix(a.tolist())


def tonp(m):
    return np.array(m.tolist(), dtype=float)


def kalman_posterior(x, P, z, H, R, information=False):
    """Conditional mean/covariance of x | z for z = Hx + v, v~N(0,R), x~N(x,P).

    Covariance form.  Also returns S, its lower Cholesky factor L, the
    whitened innovation L^-1 (z - Hx) and the gain.  With information=True also
    returns the information-form result (requires nonsingular P).
    """
    with mp.workdps(DPS):
        xm, Pm, zm, Hm, Rm = map(tomp, (x, P, z, H, R))
        S = Hm * Pm * Hm.T + Rm
        Sinv = mp.inverse(S)
        K = Pm * Hm.T * Sinv
        e = zm - Hm * xm
        xn = xm + K * e
        Pn = Pm - K * Hm * Pm
        L = mp.cholesky(S)
        nu = mp.lu_solve(L, e)
        out = dict(x=tonp(xn).ravel(), P=tonp(Pn), nu=tonp(nu).ravel(),
                   K=tonp(K), S=tonp(S), L=tonp(L), e=tonp(e).ravel())
        if information:
            Pinv = mp.inverse(Pm)
            Rinv = mp.inverse(Rm)
            Pi = mp.inverse(Pinv + Hm.T * Rinv * Hm)
            xi = Pi * (Pinv * xm + Hm.T * Rinv * zm)
            out['P_info'] = tonp(Pi)
            out['x_info'] = tonp(xi).ravel()
        return out


def expm_taylor(M):
    return mp.expm(M, method='taylor')


def process_matrices(F, Q, dt):
    """Phi = expm(F dt);  Qd = int_0^dt expm(F s) Q expm(F s)^T ds.

    Van Loan in the textbook block arrangement  [[-F, Q], [0, F^T]]  (not the
    arrangement pyins uses):  E = expm(M dt),  Phi = E22^T,  Qd = Phi E12.
    """
    with mp.workdps(DPS):
        n = len(F)
        Fm = tomp(F) if n else mp.matrix(0, 0)
        Qm = tomp(Q)
        M = mp.zeros(2 * n)
        for i in range(n):
            for j in range(n):
                M[i, j] = -Fm[i, j]
                M[i, n + j] = Qm[i, j]
                M[n + i, n + j] = Fm[j, i]
        E = expm_taylor(M * mp.mpf(dt))
        PhiT = E[n:, n:]
        Phi = PhiT.T
        Qd = Phi * E[:n, n:]
        return tonp(Phi), tonp(Qd)


def process_matrices_quadrature(F, Q, dt, order=20, panels=8):
    """Third route: Gauss-Legendre quadrature of expm(Fs) Q expm(Fs)^T."""
    with mp.workdps(DPS):
        n = len(F)
        Fm = tomp(F)
        Qm = tomp(Q)
        dt = mp.mpf(dt)
        Phi = expm_taylor(Fm * dt)
        Qd = mp.zeros(n)
        if dt == 0:
            return tonp(Phi), tonp(Qd)
        xs, ws = np.polynomial.legendre.leggauss(order)
        h = dt / panels
        for p in range(panels):
            a = h * p
            for xk, wk in zip(xs, ws):
                s = a + h * (mp.mpf(float(xk)) + 1) / 2
                E = expm_taylor(Fm * s)
                Qd += mp.mpf(float(wk)) * h / 2 * (E * Qm * E.T)
        return tonp(Phi), tonp(Qd)


def rotvec_matrix(rv, dps=40):
    """Rodrigues formula exp([rv]x) in high precision."""
    with mp.workdps(dps):
        r = [mp.mpf(float(v)) for v in rv]
        th2 = r[0] ** 2 + r[1] ** 2 + r[2] ** 2
        th = mp.sqrt(th2)
        K = mp.matrix([[0, -r[2], r[1]], [r[2], 0, -r[0]], [-r[1], r[0], 0]])
        if th == 0:
            return np.eye(3)
        k1 = mp.sin(th) / th
        k2 = (1 - mp.cos(th)) / th2
        M = mp.eye(3) + k1 * K + k2 * (K * K)
        return tonp(M)


def euler_matrix(roll, pitch, heading, dps=40):
    """Rz(heading) Ry(pitch) Rx(roll), angles in degrees, high precision."""
    with mp.workdps(dps):
        r, p, h = [mp.mpf(float(v)) * mp.pi / 180 for v in (roll, pitch, heading)]
        cr, sr, cp, sp, ch, sh = mp.cos(r), mp.sin(r), mp.cos(p), mp.sin(p), mp.cos(h), mp.sin(h)
        Rx = mp.matrix([[1, 0, 0], [0, cr, -sr], [0, sr, cr]])
        Ry = mp.matrix([[cp, 0, sp], [0, 1, 0], [-sp, 0, cp]])
        Rz = mp.matrix([[ch, -sh, 0], [sh, ch, 0], [0, 0, 1]])
        return tonp(Rz * Ry * Rx)
