#!/bin/bash
# Run a tier of every check on the unchanged tree with a given seed, without touching evidence/ (false-alarm hunting).
# usage: tools/sweep.sh thorough 11 [C01 C02 ...]
TIER=${1:-quick}; SEED=${2:-0}; shift 2
LIST=${@:-C01 C02 C03 C04 C05 C06 C07 C08 C09 C10 C11 C12 C13 C14 C15 C16 C17 C18 C19}
for c in $LIST; do
  s=$(date +%s)
  ./check $c --tier $TIER --seed $SEED --no-write > sweep_${TIER}_${SEED}_$c.log 2>&1; rc=$?
  echo "$c tier=$TIER seed=$SEED rc=$rc wall=$(( $(date +%s) - s ))s  $(tail -1 sweep_${TIER}_${SEED}_$c.log | cut -c1-160)"
done
