#!/venv/bin/python
"""Apply a seeded change to /repo, run the named checks (quick tier), undo it straight afterwards.

    tools/try_seeded.py <patch.diff> C09 [C12 ...] [--tier quick] [--demo demo.py] [--tests]

Prints one line per check (exit code and violated kinds).  /repo is always restored
(git checkout -- .) even on error.  Nothing under evidence/ or replays/ is touched
(--no-write).
"""
import argparse
import json
import os
import subprocess
import sys

ROOT = os.path.dirname(os.path.dirname(os.path.abspath(__file__)))


def main():
    ap = argparse.ArgumentParser()
    ap.add_argument('patch')
    ap.add_argument('checks', nargs='+')
    ap.add_argument('--tier', default='quick')
    ap.add_argument('--demo', default=None)
    ap.add_argument('--tests', action='store_true')
    ap.add_argument('--seed', default='0')
    a = ap.parse_args()
    st = subprocess.run(['git', '-C', '/repo', 'status', '--porcelain'], capture_output=True, text=True).stdout.strip()
    if st:
        print('refusing: /repo has local changes:\n' + st)
        return 2
    res = {}
    try:
        if a.demo:
            r = subprocess.run(['/venv/bin/python', '-W', 'ignore', os.path.abspath(a.demo)], cwd='/repo', env=dict(os.environ, PYTHONPATH='/repo'),
                               capture_output=True, text=True, timeout=900)
            res['demo_pristine_rc'] = r.returncode
        subprocess.run(['git', '-C', '/repo', 'apply', os.path.abspath(a.patch)], check=True)
        if a.demo:
            r = subprocess.run(['/venv/bin/python', '-W', 'ignore', os.path.abspath(a.demo)], cwd='/repo', env=dict(os.environ, PYTHONPATH='/repo'),
                               capture_output=True, text=True, timeout=900)
            res['demo_changed_rc'] = r.returncode
            res['demo_changed_tail'] = (r.stdout + r.stderr).strip().splitlines()[-2:]
        if a.tests:
            r = subprocess.run(['/venv/bin/python', '-m', 'pytest', '-q', '-p', 'no:cacheprovider', '-n', '8', 'pyins/tests', '--deselect',
                                'pyins/tests/test_sim.py::test_Turntable'], cwd='/repo', capture_output=True, text=True, timeout=3000)
            res['tests_tail'] = r.stdout.strip().splitlines()[-1:]
            res['tests_rc'] = r.returncode
        for c in a.checks:
            r = subprocess.run([os.path.join(ROOT, 'check'), c, '--tier', a.tier, '--no-write', '--seed', a.seed], capture_output=True, text=True, timeout=7200)
            kinds = sorted({l.split(':')[1].strip() for l in r.stdout.splitlines() if l.startswith('  violated ')})
            n = [l for l in r.stdout.splitlines() if 'violation(s) in total' in l]
            res[c] = dict(rc=r.returncode, kinds=kinds, summary=n[-1].strip() if n else r.stdout.strip().splitlines()[-1:])
    finally:
        subprocess.run(['git', '-C', '/repo', 'checkout', '--', '.'])
    print(json.dumps(res, indent=1))
    return 0


if __name__ == '__main__':
    sys.exit(main())
