#!/venv/bin/python
"""Confirm an independently authored breaking change in ITS OWN scratch worktree and keep it under seeded/<id>/.

    tools/keep_seeded_scratch.py /tmp/w6_C09 A C09-A6 C09 [more checks ...] [--skip-tests]

Everything runs in the author's scratch worktree (never in /repo), so several changes can be processed in parallel:
  1. worktree pristine (git checkout -- pyins); demo.py must exit 0,
  2. apply OUT/<X>/patch.diff; the repository test-suite must still pass (55),
  3. demo.py on the changed tree must exit non-zero,
  4. every named check (quick tier, --no-write) runs with RV_REPO=<worktree> - this is the FIRST RUN, checks as they stand,
  5. worktree restored.
Kept (patch.diff, demo.py, meta.txt, meta.json) only if 1-3 hold.
"""
import argparse
import json
import os
import shutil
import subprocess
import sys

ROOT = os.path.dirname(os.path.dirname(os.path.abspath(__file__)))


def run(cmd, **kw):
    return subprocess.run(cmd, capture_output=True, text=True, **kw)


def main():
    ap = argparse.ArgumentParser()
    ap.add_argument('worktree')
    ap.add_argument('x')
    ap.add_argument('id')
    ap.add_argument('checks', nargs='+')
    ap.add_argument('--skip-tests', action='store_true')
    ap.add_argument('--recheck', action='store_true', help='only re-run the checks for an already kept change and update meta.json')
    a = ap.parse_args()
    W = a.worktree
    src = os.path.join(W, 'OUT', a.x)
    dest = os.path.join(ROOT, 'seeded', a.id)
    if a.recheck:
        src = dest
    patch, demo = os.path.join(src, 'patch.diff'), os.path.join(src, 'demo.py')
    env = dict(os.environ, PYTHONPATH=W, OMP_NUM_THREADS='1', OPENBLAS_NUM_THREADS='1', MKL_NUM_THREADS='1')
    env.pop('RV_REPO', None)
    meta = dict(id=a.id, property=a.checks[0], source=src, ran=[])
    if a.recheck:
        meta = json.load(open(os.path.join(dest, 'meta.json')))
    run(['git', '-C', W, 'checkout', '-q', '--', 'pyins'])
    try:
        if not a.recheck:
            r = run(['/venv/bin/python', '-W', 'ignore', demo], cwd=W, env=env, timeout=1800)
            meta['demo_unchanged_rc'] = r.returncode
            meta['ran'].append('demo.py on the unchanged scratch worktree')
        ap_ = run(['git', '-C', W, 'apply', patch])
        if ap_.returncode != 0:
            meta['apply_error'] = ap_.stderr[-400:]
            print(json.dumps(meta, indent=1))
            return 1
        if not a.recheck:
            meta['files_changed'] = run(['git', '-C', W, 'diff', '--stat']).stdout.strip().splitlines()
            if not a.skip_tests:
                t = run(['/venv/bin/python', '-m', 'pytest', '-q', '-p', 'no:cacheprovider', '-n', '2', 'pyins/tests', '--deselect',
                         'pyins/tests/test_sim.py::test_Turntable'], cwd=W, env=env, timeout=3600)
                meta['tests_tail'] = t.stdout.strip().splitlines()[-1:]
                meta['tests_pass'] = t.returncode == 0
                meta['ran'].append('repository test-suite on the changed scratch worktree')
            r = run(['/venv/bin/python', '-W', 'ignore', demo], cwd=W, env=env, timeout=1800)
            meta['demo_changed_rc'] = r.returncode
            meta['demo_changed_tail'] = (r.stdout + r.stderr).strip().splitlines()[-2:]
            meta['ran'].append('demo.py on the changed scratch worktree')
        got = {}
        for c in a.checks:
            r = run([os.path.join(ROOT, 'check'), c, '--tier', 'quick', '--no-write'], timeout=7200, env=dict(os.environ, RV_REPO=W))
            kinds = sorted({l.split(':')[1].strip() for l in r.stdout.splitlines() if l.startswith('  violated ')})
            got[c] = dict(rc=r.returncode, caught=r.returncode == 1 and 'VIOLATION property=' in r.stdout, kinds=kinds)
            meta['ran'].append(f'RV_REPO={W} ./check {c} --tier quick --no-write on the changed scratch worktree')
        if a.recheck:
            meta['checks'].update(got)
        else:
            meta['checks'] = got
            meta['first_run_before_strengthening'] = json.loads(json.dumps(got))
    finally:
        run(['git', '-C', W, 'checkout', '-q', '--', 'pyins'])
    ok = a.recheck or (meta.get('demo_unchanged_rc') == 0 and meta.get('demo_changed_rc', 0) != 0 and meta.get('tests_pass', a.skip_tests))
    meta['confirmed'] = bool(ok)
    mt = os.path.join(src, 'meta.txt')
    if os.path.exists(mt):
        meta['needs_to_manifest'] = open(mt).read().strip()
    if ok:
        os.makedirs(dest, exist_ok=True)
        if not a.recheck:
            shutil.copy(patch, os.path.join(dest, 'patch.diff'))
            shutil.copy(demo, os.path.join(dest, 'demo.py'))
            if os.path.exists(mt):
                shutil.copy(mt, os.path.join(dest, 'meta.txt'))
        with open(os.path.join(dest, 'meta.json'), 'w') as f:
            json.dump(meta, f, indent=1)
    print(json.dumps({k: v for k, v in meta.items() if k not in ('needs_to_manifest', 'ran')}, indent=1))
    return 0 if ok else 1


if __name__ == '__main__':
    sys.exit(main())
