#!/bin/bash
# Stage 1 of keeping an independently authored change: confirm, in its scratch worktree, that the demo passes
# on the unchanged tree, that the repository test-suite passes with the change, and that the demo fails with it.
# usage: confirm_seeded.sh C09   -> writes /tmp/wt_C09/OUT/{A,B}/confirm.json
P=$1
export OMP_NUM_THREADS=1 OPENBLAS_NUM_THREADS=1 MKL_NUM_THREADS=1
W=${SEED_PREFIX:-/tmp/wt_}$P
for X in A B; do
  D=$W/OUT/$X
  [ -f $D/patch.diff ] || continue
  git -C $W checkout -q -- pyins
  ( cd $W && PYTHONPATH=$W timeout 1200 /venv/bin/python -W ignore $D/demo.py > $D/demo_unchanged.log 2>&1 ); r0=$?
  if git -C $W apply $D/patch.diff 2> $D/apply.log; then
    ( cd $W && PYTHONPATH=$W timeout 3000 /venv/bin/python -m pytest -q -p no:cacheprovider -n 2 pyins/tests --deselect pyins/tests/test_sim.py::test_Turntable > $D/tests.log 2>&1 ); rt=$?
    ( cd $W && PYTHONPATH=$W timeout 1200 /venv/bin/python -W ignore $D/demo.py > $D/demo_changed.log 2>&1 ); r1=$?
    git -C $W checkout -q -- pyins
  else rt=99; r1=0; fi
  echo "{\"id\": \"$P-$X\", \"demo_unchanged_rc\": $r0, \"tests_rc\": $rt, \"demo_changed_rc\": $r1, \"tests_tail\": \"$(tail -1 $D/tests.log 2>/dev/null | tr -d '\"')\"}" > $D/confirm.json
  cat $D/confirm.json
done
