#!/venv/bin/python
"""Regression of the monitors against every kept seeded change.

    tools/regress_seeded.py [--only C09] [--scratch]

For each seeded/<id>/: apply patch.diff, run the quick tier (--no-write) of the checks that
meta.json records as catching it, undo.  Default: on /repo itself (git apply / git checkout -- .),
strictly one at a time.  With --scratch the change is applied to a scratch worktree of /repo's
HEAD under /tmp instead and the checks run with RV_REPO pointing at it (parallelisable, /repo
untouched); the worktree is removed afterwards.
Exit 0 iff every change is still caught by at least one of its recorded checks.
"""
import argparse
import glob
import json
import os
import subprocess
import sys

ROOT = os.path.dirname(os.path.dirname(os.path.abspath(__file__)))


def main():
    ap = argparse.ArgumentParser()
    ap.add_argument('--only', default=None)
    ap.add_argument('--scratch', action='store_true')
    a = ap.parse_args()
    dirs = sorted(glob.glob(os.path.join(ROOT, 'seeded', '*')))
    if a.only:
        dirs = [d for d in dirs if any(os.path.basename(d).startswith(p_) for p_ in a.only.split(','))]
    repo = '/repo'
    env = dict(os.environ)
    if a.scratch:
        repo = f'/tmp/rv_regress_{os.getpid()}'
        subprocess.run(['git', '-C', '/repo', 'worktree', 'add', '-q', '--detach', repo, 'HEAD'], check=True)
        env['RV_REPO'] = repo
    elif subprocess.run(['git', '-C', '/repo', 'status', '--porcelain'], capture_output=True, text=True).stdout.strip():
        print('refusing: /repo has local changes')
        return 2
    missed = []
    try:
        for d in dirs:
            meta = json.load(open(os.path.join(d, 'meta.json')))
            checks = [c for c, v in meta['checks'].items() if v.get('caught')] or [meta['property']]
            try:
                subprocess.run(['git', '-C', repo, 'apply', os.path.join(d, 'patch.diff')], check=True)
                got = {}
                for c in checks:
                    r = subprocess.run([os.path.join(ROOT, 'check'), c, '--tier', 'quick', '--no-write'], capture_output=True, text=True, env=env, timeout=7200)
                    got[c] = r.returncode == 1 and 'VIOLATION property=' in r.stdout
            finally:
                subprocess.run(['git', '-C', repo, 'checkout', '--', '.'])
            ok = any(got.values())
            if not ok:
                missed.append(meta['id'])
            print(('CAUGHT ' if ok else 'MISSED ') + meta['id'] + ' ' + json.dumps(got), flush=True)
    finally:
        if a.scratch:
            subprocess.run(['git', '-C', '/repo', 'worktree', 'remove', '--force', repo])
    print(f'{len(dirs) - len(missed)}/{len(dirs)} seeded changes caught; missed: {missed}')
    return 1 if missed else 0


if __name__ == '__main__':
    sys.exit(main())
