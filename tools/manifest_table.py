CHECKS = {
 'C07': dict(
    text='Runtime contract on the real kalman.correct: every monitored call is compared with a 50-digit mpmath posterior (covariance and information form), lower-Cholesky whitening, symmetry/PSD/monotonicity, argument purity; sequential processing of independent blocks in random order is driven through the same monitored function. Held = no contract fired on the seeded stratified executions listed in the evidence.',
    ref='2/C07', technique='runtime contract vs high-precision reference model',
    note='Trusts mpmath at 50 digits and numpy cond/eig for the rounding bounds; inputs are the generated classes only (n<=20, m<=6, cond<=1e10).'),
 'C08': dict(
    text='Runtime contract on the real kalman.compute_process_matrices: mpmath expm and textbook-arrangement Van Loan as reference, symmetry/PSD/zero-step/purity, and the composition law over random partitions of dt driven through the monitored function.',
    ref='2/C08', technique='runtime contract vs high-precision reference model + metamorphic composition',
    note='Trusts mpmath; tolerance constants allow for the ~1e-12 relative accuracy of scipy 1.18 expm on small blocks (measured).'),
 'C16': dict(
    text='Postcondition monitors on the real pyins.earth / pyins.transform geodetic functions and the compiled gravity: closed-form WGS-84 reference (mpmath on a subset), round trips, NED frame vs Richardson partials of the real lla_to_ecef, displacement ladders for perturb/difference/NED/curvature, gravity identities, latitude parity, scalar-vs-stacked forms. Held = no monitor fired on the seeded stratified point batches listed in the evidence.',
    ref='2/C16', technique='runtime postconditions vs closed-form reference model + metamorphic relations',
    note='Constants shared with pyins by value only; near the poles the parallel radius is allowed the conditioning error of sqrt(1-sin^2) (eps/cos lat).'),
 'C17': dict(
    text='Postcondition monitors on the real mat_from_rph / mat_to_rph / compiled mat_from_rotvec / attitude block of transform_to_output: 40-digit Rz Ry Rx and Rodrigues references, orthonormality, physical sign probes, round trips with 1/cos(pitch) conditioning, dense sampling on both sides of the small-angle branch incl. a relative check of the skew part, Richardson derivative of the real Euler extraction.',
    ref='2/C17', technique='runtime postconditions vs high-precision reference model',
    note='Trusts mpmath at 40 digits; |pitch| <= 89.9 deg.'),
}
PENDING = {}
