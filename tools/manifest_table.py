CHECKS = {
 'C07': dict(
    text='Runtime contract on the real kalman.correct: every monitored call is compared with a 50-digit mpmath posterior (covariance and information form), lower-Cholesky whitening, symmetry/PSD/monotonicity, argument purity; sequential processing of independent blocks in random order is driven through the same monitored function. Held = no contract fired on the seeded stratified executions listed in the evidence.',
    ref='2/C07', technique='runtime contract vs high-precision reference model',
    note='Trusts mpmath at 50 digits and numpy cond/eig for the rounding bounds; inputs are the generated classes only (n<=20, m<=6, cond<=1e10).'),
 'C08': dict(
    text='Runtime contract on the real kalman.compute_process_matrices: mpmath expm and textbook-arrangement Van Loan as reference, symmetry/PSD/zero-step/purity, and the composition law over random partitions of dt driven through the monitored function.',
    ref='2/C08', technique='runtime contract vs high-precision reference model + metamorphic composition',
    note='Trusts mpmath; tolerance constants allow for the ~1e-12 relative accuracy of scipy 1.18 expm on small blocks (measured).'),
 'C16': dict(
    text='Postcondition monitors on the real pyins.earth / pyins.transform geodetic functions and the compiled gravity: closed-form WGS-84 reference (mpmath on a subset), round trips, NED frame vs Richardson partials of the real lla_to_ecef, displacement ladders for perturb/difference/NED/curvature, gravity identities, latitude parity, scalar-vs-stacked forms. Held = no monitor fired on the seeded stratified point batches listed in the evidence.',
    ref='2/C16', technique='runtime postconditions vs closed-form reference model + metamorphic relations',
    note='Constants shared with pyins by value only; near the poles the parallel radius is allowed the conditioning error of sqrt(1-sin^2) (eps/cos lat).'),
 'C17': dict(
    text='Postcondition monitors on the real mat_from_rph / mat_to_rph / compiled mat_from_rotvec / attitude block of transform_to_output: 40-digit Rz Ry Rx and Rodrigues references, orthonormality, physical sign probes, round trips with 1/cos(pitch) conditioning, dense sampling on both sides of the small-angle branch incl. a relative check of the skew part, Richardson derivative of the real Euler extraction.',
    ref='2/C17', technique='runtime postconditions vs high-precision reference model',
    note='Trusts mpmath at 40 digits; |pitch| <= 89.9 deg.'),
 'C05': dict(
    text='Postcondition monitors on the real transform_to_output / transform_to_internal / correct_pva / compute_state_difference / perturb_pva: left-inverse identity at rounding level (kappa = cond T), first-order coefficient of the correction residual and of the perturb-then-correct residual extracted by Richardson elimination on a six-rung error-scale ladder (must be < 1e-6 of the linear term), 2-D structural invariants bitwise.',
    ref='2/C05', technique='runtime postconditions + order-of-residual ladder on the real functions',
    note='|pitch| <= 85 deg; attitude error scaled by cos(pitch); limit statement restated as a bounded ladder.'),
 'C06': dict(
    text='Postcondition monitor on the real compute_matrices of the three measurement classes (patched on the classes): own residual model, Richardson central-difference Jacobian of the real residual through the real correct_pva, noise matrix and dimensions per altitude mode, None iff time absent; end-to-end through the real simulators with a recording RandomState (z = 0, z = -e) and through translate_trajectory for lever arms.',
    ref='2/C06', technique='runtime postconditions vs finite-difference Jacobian of the real residual',
    note='|pitch| <= 85 deg, lever <= 5 m, rates <= 1.5 rad/s; position residual compared to first order.'),
 'C18': dict(
    text='Postconditions and metamorphic relations on the real compute_state_difference / resample_state / to_180_range / perturb_pva against an independent reference (own linear interpolation, own shortest-arc quaternion slerp, own radii): both argument orders, swap branch, self / sub-sampled differences, index rule, ranges, first-order recovery ladder, congruence of angle reduction for |x| up to 1e9 in all input forms.',
    ref='2/C18', technique='runtime postconditions vs reference model + metamorphic relations',
    note='|pitch| <= 70 deg in tables; longitudes near but not across +-180 (the code does not wrap longitude differences).'),
 'C14': dict(
    text='icontract class invariant on the real EstimationModel (structure re-derived from the enable mask, evaluated after every public method), round-trip postconditions between Parameters.apply, update_estimates (1..4 partial updates), correct_increments and output_matrix, naming agreement of Parameters.data_frame with the model states, and deterministic read-out of white-noise / bias-walk scaling through a recording RandomState. Thorough tier enumerates all 110592 admissible enable masks for the structural invariant.',
    ref='2/C14', technique='runtime class invariant (icontract) + round-trip postconditions with a recording RNG',
    note='Disabled entries encoded as None / 0.0 only (negative sigmas are outside the documented encoding).'),
 'C15': dict(
    text='Postcondition monitor on the real compute_increments_from_imu against exact per-interval rotation vectors and start-frame velocity integrals (DOP853 at rtol 1e-13), over a ten-rung halving ladder; verdict = least-squares order on the finest usable rungs (>= 3.5 linear signals incl. the documented neglected term, >= 2.5 sinusoids) plus structural postconditions (rows, stamps, dt bitwise).',
    ref='2/C15', technique='runtime postcondition vs exact reference integrals on an interval-halving ladder',
    note='Order of accuracy is a limit statement restated as a bounded ladder; reference floor measured at rounding level.'),
 'C02': dict(
    text='Random call histories (integrate chunks incl. empty, predict, get_pva/get_time, set_pva) on the real Integrator with initial capacities 2..64 under: an executable model (fresh integrator, single integrate call) compared bitwise after every integrate, predict / return-value / time-index postconditions, a class invariant after every public method, a kernel-boundary contract on the compiled integrate, stale-return checks, and the same driver re-run in the NUMBA_BOUNDSCHECK=1 build of the kernel (the sanitizer build).',
    ref='2/C02', technique='history + executable model (bitwise), class invariant, kernel-boundary contract, bounds-checking build',
    note='A clean bounds-check run is no out-of-range access on these histories, not memory safety; Euler extraction assumed batch-length independent (probed each run).'),
 'C09': dict(
    text='Each case runs the real run_feedback_filter on a seeded IMU/measurement schedule under a boundary event recorder (integrate/predict/set_pva, compute_matrices hit/miss, correct, update_estimates) and a sys.monitoring loop monitor (bounded progress in while-header visits, cursor locals read from the frame); the history is checked offline for exactly-once integration of increments, exactly-once processing and stamping of samples in [start, end), table index/finite rules and cursor monotonicity.',
    ref='2/C09', technique='offline exactly-once/conservation checker over recorded event histories + loop-budget monitor',
    note='Termination restated as bounded progress in logical steps; wall-clock watchdog only yields inconclusive.'),
 'C10': dict(
    text='Each case runs the real run_feedforward_filter on a seeded schedule (sampling uniform/jittered/gapped, time_step below/equal/above the sampling gap, with/without increments) under the event recorder and loop monitor; offline checker: grid strictly increasing subset starting at the first time, step <= max(time_step, local gap), every sample in [start, end) used exactly once in order, all tables finite.',
    ref='2/C10', technique='offline exactly-once checker over recorded event histories + loop-budget monitor',
    note='Termination restated as bounded progress in logical steps.'),
 'C13': dict(
    text='Trace monitors with a shadow variable (altitude most recently supplied): 2-D integrator histories with large vertical specific force and non-zero supplied VD (every returned row VD == 0 and alt == alt_ref bitwise, plus all C02 monitors), and real 2-D runs of both filters on seeded schedules (alt_ref follows the recorded set_pva events; down/VD standard deviations exactly zero; position / NED-velocity models return two rows).',
    ref='2/C13', technique='trace monitor with shadow state over call histories and filter runs',
    note='Zero means == 0.0; altitude equality bitwise.'),
 'C19': dict(
    text='Purity sanitizer (deep argument snapshots before/after, second run on read-only ndarray copies), determinism replayer (equal inputs and integer seeds -> bit-identical; different seeds differ; second run with the same model objects), value agreement across argument forms (ndarray / read-only / list / tuple / Fortran-ordered / DataFrame, single vs stacked) and schema predicates, directed at a registry of call specifications covering every public callable enumerated at run time from the module docstrings (a callable without a specification makes the run inconclusive) and ambient on every public callable during filter schedules, integrator histories, simulation chains (and the repository test-suite in the thorough tier).',
    ref='2/C19', technique='purity sanitizer + determinism replayer over a registry of all public callables, directed and ambient',
    note='Documented exception: transform/bias of EstimationModel objects handed to a filter; Turntable.generate_imu excluded (fails at baseline).'),
 'C01': dict(
    text='Reference-model postcondition on the real compute_increments_from_imu -> Integrator.integrate pipeline fed with the exact IMU signal of analytic truth motions (hand-derived rigid-body kinematics on the rotating ellipsoid, self-checked against finite differences at start-up), at interval h and h/2 (h/4 thorough): per channel err(h) <= 4 max|y(h)-y(h/2)| + floor and err(h/2) <= 0.75 err(h) above the floor, floor = N eps scale cosh(T sqrt(2g/R)).',
    ref='2/C01', technique='runtime postcondition vs analytic truth motion on an interval-halving ladder',
    note='A limit is restated as a bounded ladder; horizons 5..120 s in quick, up to a Schuler period in thorough; longitudes compared modulo 360.'),
 'C03': dict(
    text='Postcondition on the real generate_imu (three input forms x two sensor types) against analytic truth motions: interior readings vs exact body rate / specific force or their exact interval integrals, returned trajectory vs truth, strapdown re-integration vs returned trajectory - each through the halving ladder; order of the gyro interval integration (ratio <= 0.125); bodies at rest vs the closed form; generate_sine_velocity_motion vs its documented closed form and an own integration on the ellipsoid.',
    ref='2/C03', technique='runtime postcondition vs analytic truth motion on an interval-halving ladder',
    note='Accelerometer floor 100 eps R / h^2 (spline second derivative of a 6.4e6 m vector); samples within 12 knots of the ends checked by shrink test only; Turntable excluded.'),
 'C04': dict(
    text='Postcondition on the real InsErrorModel.system_matrices / propagate_errors against error growth measured through the real strapdown pipeline: central-difference sensitivity of the error state (library coordinates = inverse of correct_pva) after a filter step with respect to the 9 (7) error states and 6 constant sensor-error directions, versus the transition / input response obtained by integrating the library matrices along the nominal run; per 3x3 block the residual must stay below the first-order perturbation bound built from the table of documented-neglected term sizes plus measured truncation and finite-difference floors; propagate_errors through a sampling ladder.',
    ref='2/C04', technique='runtime postcondition vs measured sensitivity of the real integrator, block-wise perturbation bound',
    note='Neglected-term table and constants calibrated on the unchanged tree (max ratio 0.58 over 3000 points at K=3; K=4 used) and frozen; terms of the size of the documented neglect are by construction undecidable.'),
 'C11': dict(
    text='Each case runs the real run_feedforward_filter under the event recorder (arrays kept) and compares every result field (compensated trajectory, trajectory_sd, sensor estimates and sd, normalised innovations) with an independent one-shot Gauss-Markov solution of the linear system the oracle assembles itself from public pieces only (own mid-point pva cross-checked against the recorded linearisation point, public system_matrices / EstimationModel attributes, own joint assembly, own textbook Van Loan, own initial covariance); agreement demanded to 1e-5 of the reported sd.',
    ref='2/C11', technique='runtime comparison with an independent non-recursive reference estimator',
    note='Cases with innovation-covariance cond > 1e10 are not decided; measurement rows attached to the grid row at or before their epoch (the filter\'s own linearisation).'),
 'C12': dict(
    text='(a) real run_feedback_filter on seeded schedules with no sample inside [start, end) (outside samples, empty streams, None / []): trajectory compared BIT FOR BIT with plain Integrator.integrate, event log must show no correct / update_estimates; (b) both real filters on the same data at error scale s and s/10 (s in [0.3, 3] s0): disagreement in units of the reported sd must shrink in proportion, d(s/10) <= 0.25 d(s) + 0.05, sd ratio likewise; (c) both filters run twice with the same model objects, results bit-identical.',
    ref='2/C12', technique='bitwise differential run + error-scale ladder between the two real filters + determinism replay',
    note='F = 0.05 sd is an absolute allowance for the scale-independent first-order remainder of the linear model in this workload domain (time_step <= 0.5 s, IMU 12.5 ms, horizon <= 40 s); one decade step per configuration because 10 s0 saturates and s0/100 reaches the unscaled truncation floor.'),
}
PENDING = {}
