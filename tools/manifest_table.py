CHECKS = {
 'C07': dict(
    text='Runtime contract on the real kalman.correct: every monitored call is compared with a 50-digit mpmath posterior (covariance and information form), lower-Cholesky whitening, symmetry/PSD/monotonicity, argument purity; sequential processing of independent blocks in random order is driven through the same monitored function. Held = no contract fired on the seeded stratified executions listed in the evidence.',
    ref='2/C07', technique='runtime contract vs high-precision reference model',
    note='Trusts mpmath at 50 digits and numpy cond/eig for the rounding bounds; inputs are the generated classes only (n<=20, m<=6, cond<=1e10).'),
 'C08': dict(
    text='Runtime contract on the real kalman.compute_process_matrices: mpmath expm and textbook-arrangement Van Loan as reference, symmetry/PSD/zero-step/purity, and the composition law over random partitions of dt driven through the monitored function.',
    ref='2/C08', technique='runtime contract vs high-precision reference model + metamorphic composition',
    note='Trusts mpmath; tolerance constants allow for the ~1e-12 relative accuracy of scipy 1.18 expm on small blocks (measured).'),
}
PENDING = {}
