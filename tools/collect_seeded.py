#!/venv/bin/python
"""Verify an independently authored breaking change and keep it under seeded/<id>/.

    tools/collect_seeded.py /tmp/wt_C09/OUT/A C09 [more checks ...] [--id C09-A]

Steps (all on /repo itself, which is restored straight afterwards):
  1. demo.py on the unchanged tree must exit 0,
  2. apply patch.diff; the repository's own test-suite must still pass (55),
  3. demo.py on the changed tree must exit non-zero,
  4. every named check (quick tier, --no-write) is run on the changed tree,
  5. git checkout -- . in /repo.
The change is kept (patch.diff, demo.py, the author's meta.txt, meta.json) only if 1-3 hold.
"""
import argparse
import json
import os
import shutil
import subprocess
import sys

ROOT = os.path.dirname(os.path.dirname(os.path.abspath(__file__)))


def run(cmd, **kw):
    return subprocess.run(cmd, capture_output=True, text=True, **kw)


def main():
    ap = argparse.ArgumentParser()
    ap.add_argument('src')
    ap.add_argument('checks', nargs='+')
    ap.add_argument('--id', default=None)
    ap.add_argument('--skip-tests', action='store_true')
    a = ap.parse_args()
    sid = a.id or (a.checks[0] + '-' + os.path.basename(os.path.normpath(a.src)))
    patch = os.path.join(a.src, 'patch.diff')
    demo = os.path.join(a.src, 'demo.py')
    if run(['git', '-C', '/repo', 'status', '--porcelain']).stdout.strip():
        print('refusing: /repo has local changes')
        return 2
    env = dict(os.environ, PYTHONPATH='/repo', OMP_NUM_THREADS='1', OPENBLAS_NUM_THREADS='1')
    meta = dict(id=sid, property=a.checks[0], source=a.src, ran=[])
    try:
        r = run(['/venv/bin/python', '-W', 'ignore', demo], cwd='/repo', env=env, timeout=1200)
        meta['demo_unchanged_rc'] = r.returncode
        meta['ran'].append('demo.py on the unchanged tree')
        ap_ = run(['git', '-C', '/repo', 'apply', patch])
        if ap_.returncode != 0:
            meta['apply_error'] = ap_.stderr[-400:]
            print(json.dumps(meta, indent=1))
            return 1
        meta['files_changed'] = run(['git', '-C', '/repo', 'diff', '--stat']).stdout.strip().splitlines()
        if not a.skip_tests:
            t = run(['/venv/bin/python', '-m', 'pytest', '-q', '-p', 'no:cacheprovider', '-n', '8', 'pyins/tests', '--deselect',
                     'pyins/tests/test_sim.py::test_Turntable'], cwd='/repo', timeout=3600)
            meta['tests_tail'] = t.stdout.strip().splitlines()[-1:]
            meta['tests_pass'] = t.returncode == 0
            meta['ran'].append('repository test-suite on the changed tree')
        r = run(['/venv/bin/python', '-W', 'ignore', demo], cwd='/repo', env=env, timeout=1200)
        meta['demo_changed_rc'] = r.returncode
        meta['demo_changed_tail'] = (r.stdout + r.stderr).strip().splitlines()[-2:]
        meta['ran'].append('demo.py on the changed tree')
        meta['checks'] = {}
        for c in a.checks:
            r = run([os.path.join(ROOT, 'check'), c, '--tier', 'quick', '--no-write'], timeout=7200)
            kinds = sorted({l.split(':')[1].strip() for l in r.stdout.splitlines() if l.startswith('  violated ')})
            meta['checks'][c] = dict(rc=r.returncode, caught=r.returncode == 1 and 'VIOLATION property=' in r.stdout, kinds=kinds)
            meta['ran'].append(f'./check {c} --tier quick on the changed tree')
    finally:
        subprocess.run(['git', '-C', '/repo', 'checkout', '--', '.'])
    ok = meta.get('demo_unchanged_rc') == 0 and meta.get('demo_changed_rc', 0) != 0 and meta.get('tests_pass', a.skip_tests)
    meta['confirmed'] = bool(ok)
    mt = os.path.join(a.src, 'meta.txt')
    if os.path.exists(mt):
        meta['needs_to_manifest'] = open(mt).read().strip()
    if ok:
        dest = os.path.join(ROOT, 'seeded', sid)
        os.makedirs(dest, exist_ok=True)
        shutil.copy(patch, os.path.join(dest, 'patch.diff'))
        shutil.copy(demo, os.path.join(dest, 'demo.py'))
        if os.path.exists(mt):
            shutil.copy(mt, os.path.join(dest, 'meta.txt'))
        with open(os.path.join(dest, 'meta.json'), 'w') as f:
            json.dump(meta, f, indent=1)
    print(json.dumps({k: v for k, v in meta.items() if k != 'needs_to_manifest'}, indent=1))
    return 0 if ok else 1


if __name__ == '__main__':
    sys.exit(main())
