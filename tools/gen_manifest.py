#!/venv/bin/python
"""Regenerate MANIFEST.json from the table below (keeps it schema-valid)."""
import json, os
ROOT = os.path.dirname(os.path.dirname(os.path.abspath(__file__)))
sys_path = os.path.join(ROOT)
import sys
sys.path.insert(0, ROOT)
from tools.manifest_table import CHECKS, PENDING  # noqa

props = [json.loads(l) for l in open(os.path.join(ROOT, 'properties.jsonl'))]
checks = []
na = []
for p in props:
    pid = p['id']
    if pid in CHECKS:
        c = CHECKS[pid]
        checks.append(dict(
            property_id=pid,
            quick_cmd=f'./check {pid} --tier quick',
            thorough_cmd=f'./check {pid} --tier thorough',
            evidence_file=f'evidence/{pid}.json',
            replay_cmd_template=f'./check {pid} --replay {{path}}',
            engine='rv',
            level_claimed=dict(category='exploration', text=c['text'], design_ref=c['ref']),
            level_note=c['note'],
            technique=c['technique']))
    else:
        na.append(dict(property_id=pid, reason=PENDING.get(pid, 'check not built yet (work in progress); planned in DESIGN.md section 2')))
m = dict(
    version=1,
    setup_cmd='bash setup.sh',
    hooks=dict(guard='PYINS_VERIF',
               enable='harness-side only: ./check exports PYINS_VERIF=1 and installs monitors by attribute patching / sys.monitoring at run time; no source hooks in /repo',
               baseline_off_cmd='cd /repo && /venv/bin/python -m pytest -ra -q -p no:cacheprovider --timeout=900 --continue-on-collection-errors',
               source_commits=[], add_only=True),
    engines=[dict(name='rv', path='rv/', serves_properties=sorted(CHECKS),
                  kind_free_text='runtime monitoring: contracts and event monitors wrapped round the real pyins functions, driven by seeded stratified workloads in sharded subprocesses; independent reference models (mpmath, analytic kinematics, batch Gauss-Markov) as oracles')],
    checks=checks,
    notes='Every check: exit 0 held / exit 1 VIOLATION / exit 2 INCONCLUSIVE (never folded into held). See DESIGN.md.',
    not_applicable=na)
json.dump(m, open(os.path.join(ROOT, 'MANIFEST.json'), 'w'), indent=1)
print('claimed', sorted(CHECKS), 'unclaimed', [n['property_id'] for n in na])
