import warnings; warnings.filterwarnings('ignore')
import sys; sys.path.insert(0,'/tmp/scratch/deps')
import numpy as np, pandas as pd, mpmath as mp
from pyins import earth, transform, util, sim, error_model, _numba_integrate as ni, filters, strapdown, measurements, inertial_sensor
from pyins.util import *
rng=np.random.RandomState(0)
# (a) C05 ladder
for wa in (True,False):
    em=error_model.InsErrorModel(wa); n=em.n_states; worst=0; slopes=[]
    for it in range(200):
        pva=pd.Series([rng.uniform(-85,85),rng.uniform(-180,180),rng.uniform(0,1e4),*rng.uniform(-200,200,3),rng.uniform(-180,180),rng.uniform(-85,85),rng.uniform(-180,180)],index=TRAJECTORY_COLS)
        Toi=em.transform_to_output(pva); Tio=em.transform_to_internal(pva)
        worst=max(worst,np.abs(Tio@Toi-np.eye(n)).max())
        x0=rng.randn(n)*np.r_[[10]*(3 if wa else 2),[1]*(3 if wa else 2),[0.01]*3]
        res=[]
        for s in (1,0.5,0.25,0.125):
            c=em.correct_pva(pva,s*x0); d=transform.compute_state_difference(pva,c).values
            res.append(np.abs(d-Toi@(s*x0))/np.r_[10,10,10,1,1,1,0.5,0.5,0.5])
        res=np.array(res).max(axis=1); slopes.append(np.log2(res[0]/res[-1])/3)
        if not wa:
            assert c.alt==pva.alt and c.VD==pva.VD, (c.alt,pva.alt,c.VD,pva.VD)
            assert np.abs(Toi[[2,5]]).max()==0
    print('C05',wa,'left-inv',worst,'slope min/median',min(slopes),np.median(slopes))
# (b) C16: gravitation vs gravity & centrifugal; parity
lat=rng.uniform(-90,90,1000); lon=rng.uniform(-180,180,1000); alt=rng.uniform(-1e3,1e5,1000); lla=np.c_[lat,lon,alt]
r=transform.lla_to_ecef(lla); C=transform.mat_en_from_ll(lat,lon)
gn=earth.gravity_n(lat,alt); Om=np.array([0,0,earth.RATE]); cen=-np.cross(Om,np.cross(Om,r))
g_e=util.mv_prod(C,gn); G=earth.gravitation_ecef(lla)
print('C16 gravitation = gravity - centrifugal:',np.abs(G-(g_e-cen)).max())
print(' rate_n vs C^T Omega',np.abs(earth.rate_n(lat)-util.mv_prod(C,np.tile(Om,(1000,1)),True)).max())
print(' det/orth',np.abs(np.linalg.det(C)-1).max(),np.abs(util.mm_prod(C,C,at=True)-np.eye(3)).max())
print(' numba gravity',max(abs(ni.gravity(a,b)-earth.gravity(a,b)) for a,b in zip(lat[:50],alt[:50])))
print(' parity g',np.abs(earth.gravity(lat,alt)-earth.gravity(-lat,alt)).max())
# axes along partials
h=1e-6; dlat=(transform.lla_to_ecef(lla+[h,0,0])-transform.lla_to_ecef(lla-[h,0,0]))/(2*np.deg2rad(h)); dlon=(transform.lla_to_ecef(lla+[0,h,0])-transform.lla_to_ecef(lla-[0,h,0]))/(2*np.deg2rad(h))
rn,re,rp=earth.principal_radii(lat,alt)
print(' |dr/dlat|-rn rel',np.abs(np.linalg.norm(dlat,axis=1)/rn-1).max(),' |dr/dlon|-rp rel',np.abs(np.linalg.norm(dlon,axis=1)/np.maximum(rp,1)-1)[np.abs(lat)<89].max())
print(' N axis',np.abs(dlat/np.linalg.norm(dlat,axis=1)[:,None]-C[:,:,0]).max(),' E axis',np.abs((dlon/np.linalg.norm(dlon,axis=1)[:,None]-C[:,:,1])[np.abs(lat)<89]).max())
# (c) C17
mp.mp.dps=40; worst=0
for it in range(400):
    nrm=10**rng.uniform(-9,np.log10(np.pi)) if it%3 else 1e-3*(1+rng.uniform(-1e-6,1e-6)); v=rng.randn(3); v*=nrm/np.linalg.norm(v)
    M=np.zeros((3,3)); ni.mat_from_rotvec(v,M)
    th=mp.sqrt(sum(mp.mpf(x)**2 for x in v)); K=mp.matrix([[0,-v[2],v[1]],[v[2],0,-v[0]],[-v[1],v[0],0]])
    Rm=mp.eye(3)+(mp.sin(th)/th)*K+((1-mp.cos(th))/th**2)*K*K
    worst=max(worst,max(abs(float(Rm[i,j]-mp.mpf(M[i,j]))) for i in range(3) for j in range(3)))
print('C17 rotvec max abs err',worst)
