import warnings; warnings.filterwarnings('ignore')
import sys; sys.path.insert(0,'/tmp/scratch/deps')
import numpy as np, pandas as pd
from c01b import truth, imu_from_truth, fn, CH
from pyins import sim, strapdown, transform
from pyins.util import *
def make_params(rng):
    p=[]; R=6.4e6
    lat0=np.deg2rad(rng.uniform(-80,80)); lon0=np.deg2rad(rng.uniform(-180,180)); alt0=rng.uniform(0,15000)
    spd=rng.uniform(0,250); hd=rng.uniform(0,2*np.pi)
    for ch in CH:
        ws=[rng.uniform(0.05,1.5) for k in range(2)] if ch in('lat','lon','alt') else [rng.uniform(0.2,3.0) for k in range(2)]
        if ch=='lat': c0,c1=lat0,spd*np.cos(hd)/R; amps=[rng.uniform(0,5)/w**2/R for w in ws]
        elif ch=='lon': c0,c1=lon0,spd*np.sin(hd)/R/np.cos(lat0); amps=[rng.uniform(0,5)/w**2/R/np.cos(lat0) for w in ws]
        elif ch=='alt': c0,c1=alt0,rng.uniform(-5,5); amps=[rng.uniform(0,5)/w**2 for w in ws]
        elif ch=='roll': c0,c1=rng.uniform(-np.pi,np.pi),0; amps=[rng.uniform(0,0.5)/max(w,1) for w in ws]
        elif ch=='pitch': c0,c1=rng.uniform(-1,1),0; amps=[rng.uniform(0,0.2)/max(w,1) for w in ws]
        else: c0,c1=rng.uniform(-np.pi,np.pi),rng.uniform(-0.3,0.3); amps=[rng.uniform(0,0.5)/max(w,1) for w in ws]
        p+=[c0,c1]
        for a,w in zip(amps,ws): p+=[a,w,rng.uniform(0,2*np.pi)]
    return p
for seed in range(4):
    rng=np.random.RandomState(seed); p=make_params(rng)
    for h in (0.1,0.05,0.025):
        tt=np.arange(0,20+h/2,h); y=truth(tt,p)
        lla=np.column_stack([np.rad2deg(y[:,0]),np.rad2deg(y[:,1]),y[:,2]]); rph=np.rad2deg(y[:,6:9]); vel=y[:,3:6]
        out=[]
        for form,(a,b) in {'pv':(lla,vel),'p':(lla,None),'iv':(lla[0],vel)}.items():
            for st in ('rate','increment'):
                tr,imu=sim.generate_imu(tt,a,rph,b,sensor_type=st)
                ref=imu_from_truth(tt,p,st)
                e=np.abs(imu.values-ref)[2:-2]  # skip ends
                scale=h if st=='increment' else 1
                d=transform.compute_state_difference(tr,pd.DataFrame(np.hstack([lla,vel,rph]),index=tt,columns=TRAJECTORY_COLS)).abs().max()
                # strapdown inversion
                inc=strapdown.compute_increments_from_imu(imu,st); I=strapdown.Integrator(tr.iloc[0]); I.integrate(inc)
                dd=transform.compute_state_difference(I.trajectory,tr).abs().max()
                out.append((form,st,'gyro %.1e acc %.1e'%(e[:,:3].max()/scale,e[:,3:].max()/scale),'traj pos %.1e vel %.1e'%(d[NED_COLS].max(),d[VEL_COLS].max()),'sd pos %.1e vel %.1e att %.1e'%(dd[NED_COLS].max(),dd[VEL_COLS].max(),dd[RPH_COLS].max())))
        print(seed,h,'wmax %.2f fmax %.1f'%(np.abs(y[:,9:12]).max(),np.abs(y[:,12:15]).max()))
        for o in out: print('   ',*o)
