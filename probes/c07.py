import warnings; warnings.filterwarnings('ignore')
import sys; sys.path.insert(0,'/tmp/scratch/deps')
import numpy as np, mpmath as mp, time
from pyins import kalman
mp.mp.dps=60
def tomp(a): return mp.matrix(a.tolist())
def tonp(m): return np.array(m.tolist(),dtype=float)
def oracle(x,P,z,H,R):
    x,P,z,H,R=map(tomp,(x.reshape(-1,1),P,z.reshape(-1,1),H,R))
    S=H*P*H.T+R
    K=P*H.T*mp.inverse(S)
    xn=x+K*(z-H*x); Pn=P-K*H*P
    L=mp.cholesky(S); inn=mp.lu_solve(L,z-H*x)
    return tonp(xn).ravel(),tonp(Pn),tonp(inn).ravel()
rng=np.random.RandomState(0)
worst=[0,0,0]; t0=time.time()
for it in range(300):
    n=rng.randint(1,21); m=rng.randint(1,7)
    cond=10**rng.uniform(0,10); rank=n if rng.rand()<0.7 else rng.randint(1,n+1)
    U,_=np.linalg.qr(rng.randn(n,n)); s=np.logspace(0,-np.log10(cond),n); s[rank:]=0
    scale=10**rng.uniform(-4,4)
    P=(U*s)@U.T*scale; P=0.5*(P+P.T)
    H=rng.randn(m,n); 
    if rng.rand()<0.3 and m>1: H[-1]=H[0]
    A=rng.randn(m,m); R=(A@A.T+m*np.eye(m))*10**rng.uniform(-8,8)
    x=rng.randn(n)*np.sqrt(scale); z=rng.randn(m)*np.sqrt(np.abs(np.diag(H@P@H.T+R)))
    xr,Pr,ir=oracle(x,P,z,H,R)
    x0,P0,z0,H0,R0=[a.copy() for a in (x,P,z,H,R)]
    xn,Pn,inn=kalman.correct(x,P,z,H,R)
    assert all((a==b).all() for a,b in zip((x,P,z,H,R),(x0,P0,z0,H0,R0)))
    sd=np.sqrt(np.diag(P)); sd[sd==0]=np.sqrt(scale)
    ex=np.max(np.abs(xn-xr)/ (np.sqrt(scale)*(1+np.abs(x).max()/np.sqrt(scale))))
    eP=np.max(np.abs(Pn-Pr))/np.abs(P).max()
    ei=np.max(np.abs(inn-ir))/(1+np.abs(ir).max())
    asym=np.abs(Pn-Pn.T).max()/np.abs(P).max()
    mineig=np.linalg.eigvalsh(0.5*(Pn+Pn.T)).min()/np.abs(P).max()
    dec=np.linalg.eigvalsh(0.5*((P-Pn)+(P-Pn).T)).min()/np.abs(P).max()
    worst=[max(worst[0],ex),max(worst[1],eP),max(worst[2],ei)]
    if eP>1e-9 or ex>1e-9 or ei>1e-9 or mineig<-1e-12 or dec<-1e-12: print(it,n,m,'cond %.1e'%cond,'scale %.1e'%scale,'R %.1e'%np.abs(R).max(),'ex %.1e eP %.1e ei %.1e asym %.1e mineig %.1e dec %.1e'%(ex,eP,ei,asym,mineig,dec))
print('worst',worst,time.time()-t0)
