import warnings; warnings.filterwarnings('ignore')
import numpy as np, pandas as pd
from pyins import filters, sim, strapdown, measurements, inertial_sensor, transform, util, error_model
# C06: NedVelocity H vs finite-difference of z under correct_pva convention
rng = np.random.RandomState(1)
pva = pd.Series({'lat': -33.0, 'lon': 151.0, 'alt': 300.0, 'VN': 40.0, 'VE': -25.0, 'VD': 3.0,
                 'roll': 12.0, 'pitch': -20.0, 'heading': 215.0})
rate = pd.Series([0.3, -0.5, 0.8], index=util.RATE_COLS)
pva_r = pd.concat([pva, rate])
lever = np.array([1.5, -2.0, 0.7])
for wa in (True, False):
    em = error_model.InsErrorModel(wa)
    t = 10.0
    data_v = pd.DataFrame([[1., 2., 3.]], index=[t], columns=util.VEL_COLS)
    data_p = pd.DataFrame([[-33.0001, 151.0001, 310.]], index=[t], columns=util.LLA_COLS)
    data_b = pd.DataFrame([[1., 2., 3.]], index=[t], columns=['VX', 'VY', 'VZ'])
    for name, M in (('ned', measurements.NedVelocity(data_v, 0.5, lever)),
                    ('pos', measurements.Position(data_p, 2.0, lever)),
                    ('body', measurements.BodyVelocity(data_b, 0.3))):
        z0, H, R = M.compute_matrices(t, pva_r, em)
        z0 = np.asarray(z0, float)
        n = em.n_states
        Hn = np.zeros((len(z0), n))
        eps = 1e-6
        scale = np.ones(n)
        for k in range(n):
            x = np.zeros(n); x[k] = eps
            # true state = correct_pva(ins, x): z(ins) - z(true) = H x
            pt = em.correct_pva(pva, x)
            x2 = np.zeros(n); x2[k] = -eps
            pt2 = em.correct_pva(pva, x2)
            zt = np.asarray(M.compute_matrices(t, pd.concat([pt, rate]), em)[0], float)
            zt2 = np.asarray(M.compute_matrices(t, pd.concat([pt2, rate]), em)[0], float)
            Hn[:, k] = -(zt - zt2) / (2 * eps)
        err = np.abs(Hn - H)
        print(wa, name, 'H shape', H.shape, 'R shape', R.shape, 'max abs err', err.max())
        if err.max() > 1e-3:
            np.set_printoptions(precision=4, suppress=True, linewidth=200)
            print(H); print(Hn)
