import warnings; warnings.filterwarnings('ignore')
import numpy as np, pandas as pd, time, sys
from pyins import filters, sim, strapdown, measurements, inertial_sensor, transform, util
from pyins.util import *
def run(s, DT, TS, use_bias=True, use_vel=True, noise=True, period=20, T=30, imu_err=True):
    rng=np.random.RandomState(0)
    traj, imu = sim.generate_sine_velocity_motion(DT, T, [50, 60, 100], [5, -3, 0.2], [3, 3, 0.5], period)
    pos_sd, vel_sd, lev_sd, az_sd = 10*s, 1*s, 0.5*s, 2*s
    gb=np.array([1e-4,-2e-4,1.5e-4])*s*imu_err; ab=np.array([0.02,-0.03,0.01])*s*imu_err
    gp=inertial_sensor.Parameters(bias=gb); ap=inertial_sensor.Parameters(bias=ab)
    imu_e=inertial_sensor.apply_imu_parameters(imu,'rate',gp,ap)
    inc=strapdown.compute_increments_from_imu(imu_e,'rate')
    n=rng.randn(200,3)*noise
    k=lambda t: int(round(t/DT))
    pm=traj.iloc[k(1)::k(5)]; pdata=pd.DataFrame(transform.perturb_lla(pm[LLA_COLS], 2*s*n[:len(pm)]),index=pm.index,columns=LLA_COLS)
    vm=traj.iloc[k(2.75)::k(5)]; vdata=pd.DataFrame(vm[VEL_COLS].values+0.2*s*n[50:50+len(vm)],index=vm.index,columns=VEL_COLS)
    meas=[measurements.Position(pdata,2*s)]+([measurements.NedVelocity(vdata,0.2*s)] if use_vel else [])
    err=pd.Series(np.r_[pos_sd*np.array([0.5,-0.7,0.3]),vel_sd*np.array([0.4,0.6,-0.5]),lev_sd*0.5,-lev_sd*0.4,az_sd*0.6],index=TRAJECTORY_ERROR_COLS)
    init=sim.perturb_pva(traj.iloc[0],err)
    mk=lambda: (inertial_sensor.EstimationModel(bias_sd=2e-4*s,noise=1e-6*s), inertial_sensor.EstimationModel(bias_sd=0.03*s,noise=1e-4*s)) if use_bias else (inertial_sensor.EstimationModel(noise=1e-6*s),inertial_sensor.EstimationModel(noise=1e-4*s))
    g,a=mk(); fb=filters.run_feedback_filter(init,pos_sd,vel_sd,lev_sd,az_sd,inc,g,a,measurements=meas,time_step=TS)
    I=strapdown.Integrator(init); I.integrate(inc); comp=I.trajectory
    g,a=mk(); ff=filters.run_feedforward_filter(comp,comp,pos_sd,vel_sd,lev_sd,az_sd,g,a,measurements=meas,time_step=TS)
    idx=ff.trajectory.index.intersection(fb.trajectory_sd.index)
    d=transform.compute_state_difference(fb.trajectory.loc[idx],ff.trajectory.loc[idx])/ff.trajectory_sd.loc[idx]
    return d.abs().max()
if __name__=='__main__':
    DT=float(sys.argv[1]); TS=float(sys.argv[2])
    for kw in [dict(), dict(use_bias=False,imu_err=False), dict(use_bias=False,imu_err=False,use_vel=False), dict(use_bias=False,imu_err=False,use_vel=False,noise=False), dict(use_bias=False,imu_err=False,period=200)]:
        t0=time.time(); d=run(1e-3,DT,TS,**kw); print(kw, d.round(5).to_dict(), '%.1fs'%(time.time()-t0))
