import warnings; warnings.filterwarnings('ignore')
import sys; sys.path.insert(0,'/tmp/scratch/deps')
import numpy as np, pandas as pd
from scipy.linalg import expm
from scipy.spatial.transform import Rotation as Rot
from c01b import make_params, truth, imu_from_truth, fn
from pyins import strapdown, error_model, earth, transform
from pyins.util import GYRO_COLS, ACCEL_COLS, TRAJECTORY_COLS, LLA_COLS, VEL_COLS, RPH_COLS
np.set_printoptions(precision=3, linewidth=220, suppress=False)
def err_state(ins, tru):
    # x such that correct_pva(ins, x) == tru (first order in DR)
    Ci=Rot.from_euler('xyz',ins[RPH_COLS].values.astype(float),degrees=True).as_matrix(); Ct=Rot.from_euler('xyz',tru[RPH_COLS].values.astype(float),degrees=True).as_matrix()
    tp=Rot.from_matrix(Ct@Ci.T); phi=tp.as_rotvec()
    dv=ins[VEL_COLS].values.astype(float)-tp.as_matrix().T@tru[VEL_COLS].values.astype(float)
    rn,re,rp=earth.principal_radii(ins.lat,ins.alt)
    dr=np.array([np.deg2rad(ins.lat-tru.lat)*rn,np.deg2rad(ins.lon-tru.lon)*rp,-(ins.alt-tru.alt)])
    return np.hstack([dr,dv,phi])
def apply_err(tru, x):
    # ins such that err_state(ins,tru)=x : invert correct_pva: tru = correct(ins,x)
    tp=Rot.from_rotvec(x[6:9]).as_matrix()
    Ct=Rot.from_euler('xyz',tru[RPH_COLS].values.astype(float),degrees=True).as_matrix()
    Ci=tp.T@Ct
    vi=tp.T@tru[VEL_COLS].values.astype(float)+x[3:6]
    lla=transform.perturb_lla(tru[LLA_COLS].values.astype(float), x[0:3])
    return pd.Series(np.hstack([lla,vi,Rot.from_matrix(Ci).as_euler('xyz',degrees=True)]),index=TRAJECTORY_COLS,name=tru.name)
seed=int(sys.argv[1]) if len(sys.argv)>1 else 0
rng=np.random.RandomState(seed); p=make_params(rng,0.3)
h=0.005; Delta=float(sys.argv[2]) if len(sys.argv)>2 else 0.5
nstep=int(round(Delta/h)); tt=np.arange(nstep+1)*h
imu=pd.DataFrame(imu_from_truth(tt,p,'rate'),index=tt,columns=GYRO_COLS+ACCEL_COLS)
y0=truth(tt[:1],p)[0]
pva0=pd.Series(np.hstack([np.rad2deg(y0[0:2]),y0[2],y0[3:6],np.rad2deg(y0[6:9])]),index=TRAJECTORY_COLS,name=0.0)
print(pva0.values)
def prop(pva, gyro_e=np.zeros(3), acc_e=np.zeros(3)):
    im=imu.copy(); im[GYRO_COLS]+=gyro_e; im[ACCEL_COLS]+=acc_e
    inc=strapdown.compute_increments_from_imu(im,'rate')
    I=strapdown.Integrator(pva); I.integrate(inc); return I.trajectory
nom=prop(pva0)
eps=np.array([1e3,1e3,1e3,1,1,1,1e-4,1e-4,1e-4])
S=np.zeros((9,9))
for k in range(9):
    x=np.zeros(9); x[k]=eps[k]
    a=prop(apply_err(pva0,x)).iloc[-1]; b=prop(apply_err(pva0,-x)).iloc[-1]
    S[:,k]=(err_state(a,nom.iloc[-1])-err_state(b,nom.iloc[-1]))/(2*eps[k])
em=error_model.InsErrorModel()
mid=nom.iloc[len(nom)//2]
F,Bg,Ba=em.system_matrices(mid)
# integrate Phi' = F(t) Phi along nominal with small steps
Fs,_,_=em.system_matrices(nom)
Phi=np.eye(9)
for i in range(len(nom)-1):
    Phi=expm(0.5*(Fs[i]+Fs[i+1])*h)@Phi
D=(S-Phi)/Delta
print('F (mid):'); print(F)
print('residual (S-Phi)/Delta:'); print(D)
# sensor sensitivities
Sg=np.zeros((9,3)); Sa=np.zeros((9,3))
for k in range(3):
    e=np.zeros(3); e[k]=1e-5
    a=prop(pva0,gyro_e=e).iloc[-1]; b=prop(pva0,gyro_e=-e).iloc[-1]
    Sg[:,k]=(err_state(a,nom.iloc[-1])-err_state(b,nom.iloc[-1]))/2e-5
    e=np.zeros(3); e[k]=1e-3
    a=prop(pva0,acc_e=e).iloc[-1]; b=prop(pva0,acc_e=-e).iloc[-1]
    Sa[:,k]=(err_state(a,nom.iloc[-1])-err_state(b,nom.iloc[-1]))/2e-3
print('Sg/Delta'); print(Sg/Delta); print('Bg'); print(Bg)
print('Sa/Delta'); print(Sa/Delta); print('Ba'); print(Ba)
