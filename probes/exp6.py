import warnings; warnings.filterwarnings('ignore')
import numpy as np, pandas as pd
from pyins import filters, sim, strapdown, measurements, inertial_sensor, transform, util, error_model
traj, imu = sim.generate_sine_velocity_motion(0.05, 30, [50, 60, 100], [1, -1, 0.3], [3, 3, 1])
inc = strapdown.compute_increments_from_imu(imu, 'rate')
ref = traj.iloc[[-1]].copy(); ref.index = [1000.0]
pos = measurements.Position(sim.generate_position_measurements(ref, 1, 0), 1)
for wa in (True, False):
    A = strapdown.Integrator(traj.iloc[0], wa); A.integrate(inc)
    for ts in (0.01, 0.3, 1.0, 100.0):
        gm = inertial_sensor.EstimationModel(bias_sd=1e-4, noise=1e-5, bias_walk=1e-7, scale_misal_sd=1e-3*np.ones((3,3)))
        am = inertial_sensor.EstimationModel(bias_sd=1e-2, noise=1e-3)
        r = filters.run_feedback_filter(traj.iloc[0], 1, 1, 1, 1, inc, gm, am, measurements=[pos], time_step=ts, with_altitude=wa)
        print(wa, ts, 'bit-identical', (r.trajectory.values == A.trajectory.values).all(), r.trajectory.index.equals(A.trajectory.index), len(r.trajectory_sd), r.innovations['Position'].shape)
