import warnings; warnings.filterwarnings('ignore')
import numpy as np, pandas as pd, time
from pyins import filters, sim, strapdown, measurements, inertial_sensor, transform, util
from pyins.util import *
def run(s, wa=True, seed=0, sm=False):
    rng=np.random.RandomState(seed)
    traj, imu = sim.generate_sine_velocity_motion(0.05, 60, [50, 60, 100], [5, -3, 0.2 if wa else 0], [3, 3, 0.5 if wa else 0], 20)
    pos_sd, vel_sd, lev_sd, az_sd = 10*s, 1*s, 0.5*s, 2*s
    gb=np.array([1e-4,-2e-4,1.5e-4])*s; ab=np.array([0.02,-0.03,0.01])*s
    T=np.eye(3)+ (np.array([[1e-3,2e-4,-1e-4],[3e-4,-1e-3,1e-4],[-2e-4,1e-4,5e-4]])*s if sm else 0)
    gp=inertial_sensor.Parameters(transform=T,bias=gb); ap=inertial_sensor.Parameters(bias=ab)
    imu_e=inertial_sensor.apply_imu_parameters(imu,'rate',gp,ap)
    inc=strapdown.compute_increments_from_imu(imu_e,'rate')
    n=rng.randn(200,3)
    pm=traj.iloc[20::100]; pdata=pd.DataFrame(transform.perturb_lla(pm[LLA_COLS], 2*s*n[:len(pm)]),index=pm.index,columns=LLA_COLS)
    vm=traj.iloc[57::100]; vdata=pd.DataFrame(vm[VEL_COLS].values+0.2*s*n[50:50+len(vm)],index=vm.index,columns=VEL_COLS)
    meas=[measurements.Position(pdata,2*s), measurements.NedVelocity(vdata,0.2*s)]
    err=pd.Series(np.r_[pos_sd*np.array([0.5,-0.7,0.3]),vel_sd*np.array([0.4,0.6,-0.5 if wa else 0]),lev_sd*0.5,-lev_sd*0.4,az_sd*0.6],index=TRAJECTORY_ERROR_COLS)
    if not wa: err['down']=0
    init=sim.perturb_pva(traj.iloc[0],err)
    mk=lambda: (inertial_sensor.EstimationModel(bias_sd=2e-4*s,noise=1e-6*s, scale_misal_sd=(1e-3*s*np.ones((3,3)) if sm else None)), inertial_sensor.EstimationModel(bias_sd=0.03*s,noise=1e-4*s))
    g,a=mk(); fb=filters.run_feedback_filter(init,pos_sd,vel_sd,lev_sd,az_sd,inc,g,a,measurements=meas,time_step=1.0,with_altitude=wa)
    I=strapdown.Integrator(init,wa); I.integrate(inc); comp=I.trajectory
    g,a=mk(); ff=filters.run_feedforward_filter(comp,comp,pos_sd,vel_sd,lev_sd,az_sd,g,a,measurements=meas,increments=inc,time_step=1.0,with_altitude=wa)
    idx=ff.trajectory.index.intersection(fb.trajectory_sd.index)
    d=transform.compute_state_difference(fb.trajectory.loc[idx],ff.trajectory.loc[idx])/ff.trajectory_sd.loc[idx].replace(0,np.nan)
    dg=(fb.gyro.loc[idx]-ff.gyro.loc[idx])/ff.gyro_sd.loc[idx]; da=(fb.accel.loc[idx]-ff.accel.loc[idx])/ff.accel_sd.loc[idx]
    dsd=(fb.trajectory_sd.loc[idx]/ff.trajectory_sd.loc[idx].replace(0,np.nan)-1)
    return len(idx),len(ff.trajectory),len(fb.trajectory_sd), d.abs().max().max(), dg.abs().max().max(), da.abs().max().max(), dsd.abs().max().max()
for wa in (True,False):
  for sm in (False,True):
    for s in (1,0.1,0.01,0.001):
        t0=time.time(); print(wa,sm,s,['%.2e'%x if isinstance(x,float) else x for x in run(s,wa,sm=sm)],'%.1fs'%(time.time()-t0))
