import warnings; warnings.filterwarnings('ignore')
import numpy as np, pandas as pd
from pyins import inertial_sensor
class Rec(np.random.RandomState):
    def __init__(self): super().__init__(0); self.calls=[]
    def randn(self,*shape):
        out=np.ones(shape)*(len(self.calls)+1); self.calls.append(shape); return out
t=np.array([0,0.1,0.25,0.3,0.5]); r=pd.DataFrame(np.zeros((5,3)),index=t)
for st in ('rate','increment'):
    rg=Rec(); p=inertial_sensor.Parameters(noise=[0.2,0,0.4],bias_walk=[0.01,0,0],rng=rg)
    out=p.apply(r,st); print(st, rg.calls); print(out.values[:,0], out.values[:,2])
    dt=np.r_[0.1,np.diff(t)]
    print(' expect noise col2:', 0.4*2*(dt**-0.5 if st=='rate' else dt**0.5))
