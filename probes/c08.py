import warnings; warnings.filterwarnings('ignore')
import sys; sys.path.insert(0,'/tmp/scratch/deps')
import numpy as np, mpmath as mp, time
from pyins import kalman
mp.mp.dps=50
def tomp(a): return mp.matrix(a.tolist())
def tonp(m): return np.array(m.tolist(),dtype=float)
def oracle(F,Q,dt,nq=None):
    # independent: Phi = expm(F dt) (mp taylor), Qd by Gauss-Legendre quadrature of Phi(s) Q Phi(s)^T in mp
    n=len(F); Fm=tomp(F); Qm=tomp(Q)
    Phi=mp.expm(Fm*dt,method='taylor')
    # standard Van Loan form (different block arrangement than pyins)
    M=mp.zeros(2*n); 
    for i in range(n):
        for j in range(n):
            M[i,j]=-Fm[i,j]; M[i,n+j]=Qm[i,j]; M[n+i,n+j]=Fm[j,i]
    E=mp.expm(M*dt,method='taylor')
    PhiT=E[n:,n:]; Qd=PhiT.T*E[:n,n:]
    return tonp(Phi),tonp(Qd)
rng=np.random.RandomState(0)
for it in range(30):
    n=rng.randint(1,25); kind=rng.choice(['stable','unstable','nilpotent','zero','random'])
    if kind=='zero': F=np.zeros((n,n))
    elif kind=='nilpotent': F=np.triu(rng.randn(n,n),1)
    else:
        F=rng.randn(n,n)/np.sqrt(n)
        if kind=='stable': F-=1.5*np.eye(n)
        if kind=='unstable': F+=0.5*np.eye(n)
    F*=10**rng.uniform(-3,0.5)
    r=rng.randint(0,n+1); G=rng.randn(n,r); Q=G@G.T*10**rng.uniform(-6,3)
    dt=rng.choice([0,rng.uniform(0,10),10**rng.uniform(-3,1)])
    t0=time.time(); Pr,Qr=oracle(F,Q,dt); t1=time.time()-t0
    Phi,Qd=kalman.compute_process_matrices(F,Q,dt)
    nrm=np.linalg.norm(F,2)*dt
    eP=np.abs(Phi-Pr).max()/max(np.abs(Pr).max(),1e-300); eQ=np.abs(Qd-Qr).max()/max(np.abs(Qr).max(),1e-300) if np.abs(Qr).max()>0 else np.abs(Qd).max()
    asym=np.abs(Qd-Qd.T).max()/max(np.abs(Qd).max(),1e-300); me=np.linalg.eigvalsh(0.5*(Qd+Qd.T)).min()/max(np.abs(Qd).max(),1e-300)
    print(it,n,kind,'|F|dt %.2e'%nrm,'eP %.1e eQ %.1e asym %.1e mineig %.1e  t_oracle %.1fs'%(eP,eQ,asym,me,t1))
