import warnings; warnings.filterwarnings('ignore')
import numpy as np, pandas as pd
from pyins import sim, transform, util
traj, _ = sim.generate_sine_velocity_motion(0.1, 30, [50, 179.999, 100], [1, 30, 0.3], [3, 3, 1])
traj['heading'] = util.to_180_range(traj.heading + 170)
d = transform.compute_state_difference(traj, traj); print('self max', d.abs().max().max())
sub = traj.iloc[::3]
d1 = transform.compute_state_difference(traj, sub); d2 = transform.compute_state_difference(sub, traj)
print('sub', d1.abs().max().max(), d2.abs().max().max(), d1.index.equals(d2.index), len(d1), len(sub))
sub2 = traj.iloc[1::3]
print('sub2', transform.compute_state_difference(traj, sub2).abs().max().max())
# antisymmetry with perturbed dense vs sparse
b = sub.copy(); b[['lat','lon','alt']] = transform.perturb_lla(b[['lat','lon','alt']], [3,-4,5]); b['heading'] = util.to_180_range(b.heading + 7); b['VN'] += 1
d1 = transform.compute_state_difference(traj, b); d2 = transform.compute_state_difference(b, traj)
print('antisym', (d1 + d2).abs().max().max()); print(d1.iloc[5].values)
# lon wrap: position across +-180
print(traj.lon.min(), traj.lon.max())
# resample at original times
r = transform.resample_state(traj, traj.index.values)
print('resample self', (r - traj).abs().max().max(), r.columns.equals(traj.columns))
r = transform.resample_state(traj, np.r_[-5, traj.index.values[::2], 1e3]); print(len(r), len(traj.index.values[::2]))
# to_180
for a in [180, -180, 540, -540, 179.99999999999997, -1e-20, 360, 1e16, np.array(-180.0), [180., -180.], pd.Series([180., -180., 0, 720.5])]:
    print(repr(a), '->', repr(util.to_180_range(a)))
