import warnings; warnings.filterwarnings('ignore')
import numpy as np, pandas as pd, signal, sys
from pyins import filters, sim, strapdown, measurements, inertial_sensor, transform, util
traj, imu = sim.generate_sine_velocity_motion(0.1, 20, [50, 60, 100], [1, -1, 0], [3, 3, 0])
inc = strapdown.compute_increments_from_imu(imu, 'rate')
# two measurement epochs inside one interval: times 1.02 and 1.07
tt = np.array([1.02, 1.07, 5.0])
ref = transform.resample_state(traj, tt)
pos = measurements.Position(sim.generate_position_measurements(ref, 1, 0), 1)
vel = measurements.NedVelocity(sim.generate_ned_velocity_measurements(ref.iloc[[1]], 1, 0), 1)
class TO(Exception): pass
def h(*a): raise TO()
signal.signal(signal.SIGALRM, h)
for fn in ('ff', 'fb'):
  for ts in (0.5, 1.0):
    signal.alarm(20)
    try:
        if fn == 'ff':
            r = filters.run_feedforward_filter(traj, traj, 1, 1, 1, 1, measurements=[pos, vel], time_step=ts)
        else:
            r = filters.run_feedback_filter(traj.iloc[0], 1, 1, 1, 1, inc, measurements=[pos, vel], time_step=ts)
        signal.alarm(0)
        idx = r.trajectory_sd.index
        print(fn, 'ok ts', ts, len(idx), 'strictly inc', bool((np.diff(idx) > 0).all()), 'maxstep', np.diff(idx).max())
        print({k: list(v.index) for k, v in r.innovations.items()})
        print('finite', all(np.isfinite(np.asarray(r[k])).all() for k in ('trajectory','trajectory_sd')))
    except TO:
        print(fn, 'TIMEOUT ts', ts)
    except Exception as e:
        signal.alarm(0)
        import traceback; traceback.print_exc()
        print(fn, 'FAIL', ts, type(e).__name__, e)
