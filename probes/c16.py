import warnings; warnings.filterwarnings('ignore')
import numpy as np
from pyins import transform, earth
rng=np.random.RandomState(0)
N=200000
lat=np.r_[rng.uniform(-90,90,N),[-90,90,0,0,89.999999,-89.999999]]; lon=np.r_[rng.uniform(-180,180,N),[0,180,-180,180,10,20]]
for lo,hi in [(-1e4,1e4),(1e4,1e6),(1e6,4e7)]:
    alt=np.r_[rng.uniform(lo,hi,N),[0,0,0,0,0,0]]
    lla=np.c_[lat,lon,alt]
    r=transform.lla_to_ecef(lla); back=transform.ecef_to_lla(r); r2=transform.lla_to_ecef(back)
    print(lo,hi,'ecef rt max m %.2e'%np.abs(r2-r).max(),'lat err deg %.2e'%np.abs(back[:,0]-lat).max(),'alt err %.2e'%np.abs(back[:,2]-alt).max(),'lon err %.2e'%np.abs(((back[:,1]-lon+180)%360-180)[np.abs(lat)<89.9]).max())
# scalar vs vector
print(transform.ecef_to_lla(transform.lla_to_ecef([10,20,30])))
# pole
print(transform.ecef_to_lla(transform.lla_to_ecef([90,77,30])), transform.ecef_to_lla(transform.lla_to_ecef([-90,77,-30])))
