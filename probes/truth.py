"""Independent truth kinematics via sympy (prototype)."""
import sys; sys.path.insert(0, '/tmp/scratch/deps')
import numpy as np, sympy as sp
A=6378137.0; E2=6.6943799901413e-3; GE=9.7803253359; GP=9.8321849378; RATE=7.292115e-5
Fg=(1-E2)**0.5*GP/GE-1
t=sp.Symbol('t')
def build(nterm=2):
    # parameters as symbols: each of 6 channels: c0 + c1*t + sum a_k sin(w_k t + p_k)
    P={}
    exprs=[]
    for ch in ['lat','lon','alt','roll','pitch','head']:
        c0,c1=sp.symbols(f'{ch}_c0 {ch}_c1'); e=c0+c1*t; syms=[c0,c1]
        for k in range(nterm):
            a,w,p=sp.symbols(f'{ch}_a{k} {ch}_w{k} {ch}_p{k}'); e+=a*sp.sin(w*t+p); syms+=[a,w,p]
        P[ch]=syms; exprs.append(e)
    lat,lon,alt,ro,pi,he=exprs   # radians, metres
    sl,cl=sp.sin(lat),sp.cos(lat)
    x=1-E2*sl**2; re=A/sp.sqrt(x); rn=re*(1-E2)/x
    g=GE*(1+Fg*sl**2)/sp.sqrt(x)*(1-2*alt/A)
    dlat,dlon,dalt=[sp.diff(e,t) for e in (lat,lon,alt)]
    v=sp.Matrix([(rn+alt)*dlat,(re+alt)*cl*dlon,-dalt])
    w_ie=sp.Matrix([RATE*cl,0,-RATE*sl]); w_en=sp.Matrix([dlon*cl,-dlat,-dlon*sl])
    cr,sr,cp,spi,ch_,sh=sp.cos(ro),sp.sin(ro),sp.cos(pi),sp.sin(pi),sp.cos(he),sp.sin(he)
    Rx=sp.Matrix([[1,0,0],[0,cr,-sr],[0,sr,cr]]); Ry=sp.Matrix([[cp,0,spi],[0,1,0],[-spi,0,cp]]); Rz=sp.Matrix([[ch_,-sh,0],[sh,ch_,0],[0,0,1]])
    C=Rz*Ry*Rx
    dro,dpi,dhe=[sp.diff(e,t) for e in (ro,pi,he)]
    w_nb=sp.Matrix([dro-dhe*spi, dpi*cr+dhe*sr*cp, -dpi*sr+dhe*cr*cp])
    w_b=C.T*(w_ie+w_en)+w_nb
    dv=sp.diff(v,t)
    f_b=C.T*(dv+(2*w_ie+w_en).cross(v)-sp.Matrix([0,0,g]))
    allsyms=[s for ch in ['lat','lon','alt','roll','pitch','head'] for s in P[ch]]
    out=sp.Matrix([lat,lon,alt,*v,ro,pi,he,*w_b,*f_b])
    fn=sp.lambdify([t]+allsyms,out,'numpy',cse=True)
    return fn,len(allsyms)
if __name__=='__main__':
    import time as T
    t0=T.time(); fn,n=build(2); print('build',T.time()-t0,n)
    rng=np.random.RandomState(0)
    tt=np.linspace(0,10,100001)
    p=rng.rand(n)
    t0=T.time(); y=fn(tt,*p); print('eval',T.time()-t0, np.asarray(y).shape if not isinstance(y,list) else len(y))
