import warnings; warnings.filterwarnings('ignore')
import sys; sys.path.insert(0,'/tmp/scratch/deps')
import numpy as np, pandas as pd, time as T
from truth import build
from pyins import strapdown
from pyins.util import GYRO_COLS, ACCEL_COLS, TRAJECTORY_COLS
fn,n=build(2)
CH=['lat','lon','alt','roll','pitch','head']
def make_params(rng, aggressive=1.0):
    p=[]
    lat0=np.deg2rad(rng.uniform(-80,80)); lon0=np.deg2rad(rng.uniform(-180,180)); alt0=rng.uniform(0,15000)
    spd=rng.uniform(0,250); hd=rng.uniform(0,2*np.pi)
    R=6.4e6
    for ch in CH:
        if ch=='lat': c0,c1=lat0,spd*np.cos(hd)/R; amp=rng.uniform(0,200)/R
        elif ch=='lon': c0,c1=lon0,spd*np.sin(hd)/R/np.cos(lat0); amp=rng.uniform(0,200)/R/np.cos(lat0)
        elif ch=='alt': c0,c1=alt0,rng.uniform(-5,5); amp=rng.uniform(0,100)
        elif ch=='roll': c0,c1=rng.uniform(-np.pi,np.pi),0; amp=rng.uniform(0,0.6)*aggressive
        elif ch=='pitch': c0,c1=rng.uniform(-1,1),0; amp=rng.uniform(0,0.25)*aggressive
        else: c0,c1=rng.uniform(-np.pi,np.pi),rng.uniform(-0.3,0.3); amp=rng.uniform(0,0.6)*aggressive
        p+=[c0,c1]
        for k in range(2):
            w=rng.uniform(0.05,3.0) if ch in('lat','lon','alt') else rng.uniform(0.3,5.0)
            p+=[amp/2*rng.uniform(0.3,1)/ (1 if ch not in ('lat','lon','alt') else max(w,0.3)**0),w,rng.uniform(0,2*np.pi)]
    return p
def truth(tt,p):
    y=np.asarray(fn(np.asarray(tt,float),*p),dtype=float).reshape(15,-1).T
    return y
GLx,GLw=np.polynomial.legendre.leggauss(10)
def imu_from_truth(tt,p,stype):
    if stype=='rate':
        y=truth(tt,p); return y[:,9:15]
    h=np.diff(tt)
    nodes=(tt[:-1,None]+0.5*h[:,None]*(GLx[None,:]+1)).ravel()
    y=truth(nodes,p)[:,9:15].reshape(len(h),len(GLx),6)
    inc=(y*GLw[None,:,None]).sum(1)*0.5*h[:,None]
    return np.vstack([inc[:1],inc])
def run(p,Tend,h,stype,wa=True):
    nstep=int(round(Tend/h)); tt=np.arange(nstep+1)*h
    imu=pd.DataFrame(imu_from_truth(tt,p,stype),index=tt,columns=GYRO_COLS+ACCEL_COLS)
    inc=strapdown.compute_increments_from_imu(imu,stype)
    y0=truth(tt[:1],p)[0]
    pva=pd.Series(np.hstack([np.rad2deg(y0[0:2]),y0[2],y0[3:6],np.rad2deg(y0[6:9])]),index=TRAJECTORY_COLS,name=0.0)
    I=strapdown.Integrator(pva,wa); I.integrate(inc)
    return I.trajectory
def cmp(traj,p):
    from scipy.spatial.transform import Rotation as Rot
    tt=np.asarray(traj.index); y=truth(tt,p)
    dN=(np.deg2rad(traj.lat.values)-y[:,0])*6.37e6; dE=(np.deg2rad(traj.lon.values)-y[:,1])*6.37e6*np.cos(y[:,0]); dD=-(traj.alt.values-y[:,2])
    dv=traj[['VN','VE','VD']].values-y[:,3:6]
    Rc=Rot.from_euler('xyz',traj[['roll','pitch','heading']].values,degrees=True); Rt=Rot.from_euler('xyz',y[:,6:9])
    da=(Rc*Rt.inv()).magnitude()
    return np.hypot(np.hypot(dN,dE),dD), np.linalg.norm(dv,axis=1), da
def diff_traj(a,b):
    from scipy.spatial.transform import Rotation as Rot
    b=b.loc[a.index]
    dN=np.deg2rad(a.lat.values-b.lat.values)*6.37e6; dE=np.deg2rad(a.lon.values-b.lon.values)*6.37e6*np.cos(np.deg2rad(a.lat.values)); dD=a.alt.values-b.alt.values
    dv=(a[['VN','VE','VD']].values-b[['VN','VE','VD']].values)
    Ra=Rot.from_euler('xyz',a[['roll','pitch','heading']].values,degrees=True); Rb=Rot.from_euler('xyz',b[['roll','pitch','heading']].values,degrees=True)
    return np.hypot(np.hypot(dN,dE),dD), np.linalg.norm(dv,axis=1),(Ra*Rb.inv()).magnitude()
if __name__=='__main__':
    for seed in range(6):
        rng=np.random.RandomState(seed); p=make_params(rng)
        for stype in ('rate','increment'):
            for h in (0.04,0.01):
                t0=T.time()
                a=run(p,30.0,h,stype); b=run(p,30.0,h/2,stype)
                ea=[x.max() for x in cmp(a,p)]; d=[x.max() for x in diff_traj(a,b)]
                y=truth(np.array([0.,10.,20.]),p); 
                print(seed,stype,h,'err',['%.2e'%x for x in ea],'diff',['%.2e'%x for x in d],'ratio',['%.2f'%(x/y_) for x,y_ in zip(ea,d)], 'wmax %.2f fmax %.1f'%(np.abs(truth(a.index.values,p)[:,9:12]).max(),np.abs(truth(a.index.values,p)[:,12:15]).max()))
