import warnings; warnings.filterwarnings('ignore')
import numpy as np, sys
import c09
from pyins import filters, strapdown
seed=int(sys.argv[1])
calls=[]
o=strapdown.Integrator.integrate
def w(self,inc): calls.append(list(inc.index)); return o(self,inc)
strapdown.Integrator.integrate=w
orig=filters.run_feedback_filter
def spy(init,*a,**k):
    m=k['measurements']; inc=a[4]
    t=np.r_[init.name,np.asarray(inc.index)]
    for x in m:
        e=np.asarray(x.data.index); print(type(x).__name__, [ (float(v), int(np.searchsorted(t,v,side='right'))) for v in e if t[0]<=v<=t[-1]][:12])
    print('ts',k['time_step'],'n inc',len(inc), 'dt set', np.unique(np.round(np.diff(t),4))[:5])
    try:
        r=orig(init,*a,**k)
    except Exception as ex:
        flat=[x for c in calls for x in c]; print('EXC',ex.__class__.__name__,'dups',sorted(set(x for x in flat if flat.count(x)>1)),'empty',sum(1 for c in calls if not c)); raise
    for x in m: print('innov',type(x).__name__, list(r.innovations[type(x).__name__].index)[:12])
    return r
filters.run_feedback_filter=spy
print(c09.case(seed,'fb'))
