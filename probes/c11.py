import warnings; warnings.filterwarnings('ignore')
import numpy as np, pandas as pd, time
from scipy.linalg import expm, cho_factor, cho_solve, cholesky, solve_triangular, block_diag
from scipy.spatial.transform import Rotation as Rot, Slerp
from pyins import filters, sim, strapdown, measurements, inertial_sensor, transform, util, error_model, earth
from pyins.util import *
rng=np.random.RandomState(3)
DT=0.05; TS=0.5; wa=True
traj, imu = sim.generate_sine_velocity_motion(DT, 20, [50, 60, 100], [5, -3, 0.2], [3, 3, 0.5], 20)
gp=inertial_sensor.Parameters(transform=np.eye(3)+1e-3*rng.randn(3,3),bias=[1e-4,-2e-4,1e-4],noise=1e-5,rng=1); ap=inertial_sensor.Parameters(bias=[0.02,-0.03,0.01],noise=1e-3,rng=2)
inc=strapdown.compute_increments_from_imu(inertial_sensor.apply_imu_parameters(imu,'rate',gp,ap),'rate')
init=sim.perturb_pva(traj.iloc[0],sim.generate_pva_error(10,1,0.5,2,0))
I=strapdown.Integrator(init,wa); I.integrate(inc); comp=I.trajectory
sm=np.zeros((3,3)); sm[0,0]=1e-3; sm[1,2]=2e-3; sm[2,0]=5e-4
def models(): return (inertial_sensor.EstimationModel(bias_sd=[2e-4,0,3e-4],noise=[1e-5,1e-5,0],bias_walk=[1e-6,0,0],scale_misal_sd=sm), inertial_sensor.EstimationModel(bias_sd=0.03,noise=1e-3,bias_walk=[0,1e-4,0]))
tm=np.array([1.02,3.5,7.77,12.0,15.03]); ref=transform.resample_state(traj,tm)
pos=measurements.Position(sim.generate_position_measurements(ref,2,0),2,[1.,-2,0.5])
tb=np.array([2.21,3.5,9.0]); refb=transform.resample_state(traj,tb)
bv=measurements.BodyVelocity(sim.generate_body_velocity_measurements(refb,0.2,1),0.2)
meas=[pos,bv]
# record measurement model outputs
rec=[]
for cls in (measurements.Position,measurements.BodyVelocity):
    def mk(orig,cls):
        def w(self,time,pva,em):
            r=orig(self,time,pva,em)
            if r is not None: rec.append((cls.__name__,time,np.asarray(r[0],float).copy(),np.asarray(r[1]).copy(),np.asarray(r[2]).copy()))
            return r
        return w
    cls.compute_matrices=mk(cls.compute_matrices,cls)
g,a=models()
res=filters.run_feedforward_filter(comp,comp,10,1,0.5,2,g,a,measurements=meas,increments=inc,time_step=TS,with_altitude=wa)
grid=np.asarray(res.trajectory.index); K=len(grid)
print('grid',K,'meas events',len(rec))
# ---- oracle ----
em=error_model.InsErrorModel(wa); g,a=models()
ni=em.n_states; ng=g.n_states; na=a.n_states; n=ni+ng+na
def midpoint(p,q):
    r=Slerp([0,1],Rot.from_euler('xyz',np.vstack([p[RPH_COLS].values,q[RPH_COLS].values]).astype(float),degrees=True))(0.5).as_euler('xyz',degrees=True)
    return pd.Series(np.r_[0.5*(p[LLA_COLS].values+q[LLA_COLS].values),0.5*(p[VEL_COLS].values+q[VEL_COLS].values),r].astype(float),index=TRAJECTORY_COLS)
def disc(F,Qc,dt):
    m=len(F); M=np.zeros((2*m,2*m)); M[:m,:m]=-F; M[:m,m:]=Qc; M[m:,m:]=F.T
    E=expm(M*dt); Phi=E[m:,m:].T; return Phi, Phi@E[:m,m:]
# grid continues to last step? filter steps from grid[k] to grid[k+1]; final step exists beyond last grid but irrelevant
Phis=[];Qs=[]
for k in range(K-1):
    t0,t1=grid[k],grid[k+1]; pm=midpoint(comp.loc[t0],comp.loc[t1])
    Fii,Fig,Fia=em.system_matrices(pm)
    b=inc.loc[np.nextafter(t0,t1):t1]; gavg=b[THETA_COLS].sum(axis=0).values/(t1-t0); aavg=b[DV_COLS].sum(axis=0).values/(t1-t0)
    Hg=g.output_matrix(gavg); Ha=a.output_matrix(aavg)
    F=np.zeros((n,n)); F[:ni,:ni]=Fii; F[:ni,ni:ni+ng]=Fig@Hg; F[:ni,ni+ng:]=Fia@Ha; F[ni:ni+ng,ni:ni+ng]=g.F; F[ni+ng:,ni+ng:]=a.F
    Bw=np.zeros((n, g.n_output_noises+a.n_output_noises+g.n_noises+a.n_noises)); c=0
    Bw[:ni,c:c+g.n_output_noises]=Fig@g.J*g.v; c+=g.n_output_noises
    Bw[:ni,c:c+a.n_output_noises]=Fia@a.J*a.v; c+=a.n_output_noises
    Bw[ni:ni+ng,c:c+g.n_noises]=g.G*g.q; c+=g.n_noises
    Bw[ni+ng:,c:c+a.n_noises]=a.G*a.q
    Phi,Qd=disc(F,Bw@Bw.T,t1-t0); Phis.append(Phi); Qs.append(Qd)
Toi=em.transform_to_output(comp.iloc[0]); Tio=np.linalg.pinv(Toi) if not wa else np.linalg.inv(Toi)
P0=np.zeros((n,n)); P0[:ni,:ni]=Tio@np.diag(np.array([10,10,10,1,1,1,0.5,0.5,2.])**2)@Tio.T; P0[ni:ni+ng,ni:ni+ng]=g.P; P0[ni+ng:,ni+ng:]=a.P
# joint: X = L u, u=(x0,w0..w_{K-2}); Cov(u)=blockdiag(P0,Q...)
Su=block_diag(P0,*Qs); L=np.zeros((K*n,K*n))
for i in range(K):
    for j in range(i+1):
        M=np.eye(n)
        for k in range(j,i): M=Phis[k]@M
        L[i*n:(i+1)*n,j*n:(j+1)*n]=M
SX=L@Su@L.T
# measurements: assign to grid index = largest grid time <= meas time
rows=[];zs=[];Rs=[];gk=[]
for (nm,tm_,z,H,R) in rec:
    k=np.searchsorted(grid,tm_,side='right')-1
    Hf=np.zeros((len(z),K*n)); Hf[:,k*n:k*n+ni]=H; rows.append(Hf); zs.append(z); Rs.append(R); gk.append(k)
Hall=np.vstack(rows); zall=np.hstack(zs); Rall=block_diag(*Rs); gk_rows=np.repeat(gk,[len(z) for z in zs])
xs=np.zeros((K,n)); Ps=np.zeros((K,n,n))
for k in range(K):
    sel=gk_rows<=k
    Hk=Hall[sel]; S=Hk@SX@Hk.T+Rall[np.ix_(sel,sel)]; C=SX[k*n:(k+1)*n]@Hk.T
    if sel.any():
        cf=cho_factor(S); xs[k]=C@cho_solve(cf,zall[sel]); Ps[k]=SX[k*n:(k+1)*n,k*n:(k+1)*n]-C@cho_solve(cf,C.T)
    else: Ps[k]=SX[k*n:(k+1)*n,k*n:(k+1)*n]
# compare
T=em.transform_to_output(comp.loc[grid]); sd_o=np.sqrt(np.einsum('kij,kjl,kil->ki',T,Ps[:,:ni,:ni],T))
print('sd rel diff', np.abs(res.trajectory_sd.values/sd_o-1).max())
print('gyro est diff/sd', np.abs((res.gyro.values-xs[:,ni:ni+ng])/res.gyro_sd.values).max(), 'accel', np.abs((res.accel.values-xs[:,ni+ng:])/res.accel_sd.values).max())
print('gyro sd rel', np.abs(res.gyro_sd.values/np.sqrt(np.einsum('kii->ki',Ps[:,ni:ni+ng,ni:ni+ng]))-1).max())
en=np.einsum('kij,kj->ki',T,xs[:,:ni]); c=comp.loc[grid]
rn,_,rp=earth.principal_radii(c.lat.values,c.alt.values)
exp=c.copy(); exp['lat']-=np.rad2deg(en[:,0]/rn); exp['lon']-=np.rad2deg(en[:,1]/rp); exp['alt']+=en[:,2]; exp[VEL_COLS]-=en[:,3:6]; exp[RPH_COLS]-=en[:,6:9]
d=transform.compute_state_difference(res.trajectory,exp)/res.trajectory_sd
print('traj diff / sd', d.abs().max().max())
# innovations one-shot: for measurement j: predictive given earlier rows
off=0; worst=0
for j,(nm,tm_,z,H,R) in enumerate(rec):
    m=len(z); prev=np.arange(off); cur=np.arange(off,off+m)
    Hc=Hall[cur]; mu=np.zeros(m); S=Hc@SX@Hc.T+R
    if off:
        Hp=Hall[prev]; Sp=Hp@SX@Hp.T+Rall[np.ix_(prev,prev)]; Cc=Hc@SX@Hp.T; cf=cho_factor(Sp); mu=Cc@cho_solve(cf,zall[prev]); S=S-Cc@cho_solve(cf,Cc.T)
    nu=solve_triangular(cholesky(S,lower=True),z-mu,lower=True)
    got=res.innovations[nm].values[[i for i,(a_,_,_,_,_) in enumerate([r for r in rec if r[0]==nm]) ].__len__() and 0:0] if False else None
    off+=m
    # find the row in result
    idx=sum(1 for r in rec[:j] if r[0]==nm); worst=max(worst,np.abs(res.innovations[nm].values[idx]-nu).max())
print('innovation diff', worst)
