import warnings; warnings.filterwarnings('ignore')
import numpy as np, pandas as pd
from pyins import filters, sim, strapdown, measurements, transform
traj, imu = sim.generate_sine_velocity_motion(0.1, 20, [50, 60, 100], [1, -1, 0], [3, 3, 0])
inc = strapdown.compute_increments_from_imu(imu, 'rate')
tt = np.array([1.02, 1.05, 1.07, 5.0])
ref = transform.resample_state(traj, tt)
pos = measurements.Position(sim.generate_position_measurements(ref, 1, 0), 1)
calls = []
orig = strapdown.Integrator.integrate
def wrapped(self, increments):
    calls.append(list(increments.index)); return orig(self, increments)
strapdown.Integrator.integrate = wrapped
try:
    r = filters.run_feedback_filter(traj.iloc[0], 1, 1, 1, 1, inc, measurements=[pos], time_step=1.0)
except Exception as e:
    print("EXC", type(e).__name__)
    flat = [t for c in calls for t in c]
    print("integrated", len(flat), "increments", len(inc), "dups", sorted(set([t for t in flat if flat.count(t) > 1])), "empty calls", sum(1 for c in calls if not c))
    print([c if len(c)<3 else (c[0], "..", c[-1]) for c in calls[:8]])
    raise SystemExit
idx = r.trajectory.index
print('traj len', len(idx), 'expected', len(inc) + 1, 'unique', idx.is_unique, 'monotonic', idx.is_monotonic_increasing)
flat = [t for c in calls for t in c]
print('integrated', len(flat), 'increments', len(inc), 'dups', sorted(set([t for t in flat if flat.count(t) > 1])))
print('empty integrate calls', sum(1 for c in calls if not c))
print('sd index', list(r.trajectory_sd.index[:8]), r.trajectory_sd.index.is_unique)
print(r.innovations['Position'].index.tolist())
print('finite', np.isfinite(r.trajectory.values).all(), np.isfinite(r.trajectory_sd.values).all())
