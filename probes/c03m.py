import numpy as np
from c01b import CH
def make_params(rng):
    p=[]; R=6.4e6
    lat0=np.deg2rad(rng.uniform(-80,80)); lon0=np.deg2rad(rng.uniform(-180,180)); alt0=rng.uniform(0,15000)
    spd=rng.uniform(0,250); hd=rng.uniform(0,2*np.pi)
    for ch in CH:
        ws=[rng.uniform(0.05,1.5) for k in range(2)] if ch in('lat','lon','alt') else [rng.uniform(0.2,3.0) for k in range(2)]
        if ch=='lat': c0,c1=lat0,spd*np.cos(hd)/R; amps=[rng.uniform(0,5)/w**2/R for w in ws]
        elif ch=='lon': c0,c1=lon0,spd*np.sin(hd)/R/np.cos(lat0); amps=[rng.uniform(0,5)/w**2/R/np.cos(lat0) for w in ws]
        elif ch=='alt': c0,c1=alt0,rng.uniform(-5,5); amps=[rng.uniform(0,5)/w**2 for w in ws]
        elif ch=='roll': c0,c1=rng.uniform(-np.pi,np.pi),0; amps=[rng.uniform(0,0.5)/max(w,1) for w in ws]
        elif ch=='pitch': c0,c1=rng.uniform(-1,1),0; amps=[rng.uniform(0,0.2)/max(w,1) for w in ws]
        else: c0,c1=rng.uniform(-np.pi,np.pi),rng.uniform(-0.3,0.3); amps=[rng.uniform(0,0.5)/max(w,1) for w in ws]
        p+=[c0,c1]
        for a,w in zip(amps,ws): p+=[a,w,rng.uniform(0,2*np.pi)]
    return p
