import warnings; warnings.filterwarnings('ignore')
import numpy as np, pandas as pd
from c15 import exact
rng=np.random.RandomState(1)
a=rng.uniform(-1,1,3)*1.5; b=rng.uniform(-1,1,3)*3; d=rng.uniform(-1,1,3)*15; e=rng.uniform(-1,1,3)*30
w=lambda t: a+b*t; f=lambda t: d+e*t
W=lambda t: a*t[:,None]+b*t[:,None]**2/2; Fi=lambda t: d*t[:,None]+e*t[:,None]**2/2
base=np.sort(np.r_[0,np.cumsum(rng.uniform(0.5,1.5,8))])
prev=None
for h in [0.08,0.04,0.02,0.01,0.005]:
    tt=base*h; Wv=W(tt); Fv=Fi(tt); inc=np.c_[np.diff(Wv,axis=0),np.diff(Fv,axis=0)]
    h0=tt[1]-tt[0]; t_1=np.array([tt[0]-h0,tt[0]]); first=np.r_[np.diff(W(t_1),axis=0)[0],np.diff(Fi(t_1),axis=0)[0]]
    data=np.vstack([first,inc]); gyro=data[:,:3]; accel=data[:,3:]
    dt=np.diff(tt).reshape(-1,1); dtp=np.vstack([dt[:1],dt[:-1]])
    scale=2*dt**2/(dtp*(dtp+dt))
    coning=np.cross(gyro[:-1],gyro[1:])/12*scale
    scull=(np.cross(gyro[:-1],accel[1:])+np.cross(accel[:-1],gyro[1:]))/12*scale
    theta=gyro[1:]+coning; dv=accel[1:]+scull+0.5*np.cross(gyro[1:],accel[1:])
    th,dvx=exact(tt,w,f)
    ak=np.array([w(t) for t in tt[:-1]]); dk=np.array([f(t) for t in tt[:-1]]); corr=np.cross(ak,np.cross(ak,dk))*dt**3/6
    cur=(np.abs(theta-th).max(),np.abs(dv+corr-dvx).max())
    print(h,'eth %.2e edv-corr %.2e'%cur, '' if prev is None else 'slopes %.2f %.2f'%(np.log2(prev[0]/cur[0]),np.log2(prev[1]/cur[1])))
    prev=cur
