import warnings; warnings.filterwarnings('ignore')
import numpy as np, pandas as pd
from pyins import filters, sim, strapdown, measurements, inertial_sensor, transform, util
traj, imu = sim.generate_sine_velocity_motion(0.1, 30, [50, 60, 100], [1, -1, 0.3], [3, 3, 1])
inc = strapdown.compute_increments_from_imu(imu, 'rate')
# C13: set_pva with nonzero VD in 2D
I = strapdown.Integrator(traj.iloc[0], with_altitude=False)
I.integrate(inc.iloc[:10])
p = I.get_pva().copy(); p['VD'] = 2.0; p['alt'] = 500.0
I.set_pva(p)
out = I.integrate(inc.iloc[10:20])
print(out[['alt','VD']].head(4))
# C02: chunk equivalence
for wa in (True, False):
    A = strapdown.Integrator(traj.iloc[0], wa); A.integrate(inc)
    B = strapdown.Integrator(traj.iloc[0], wa)
    B.INITIAL_SIZE = 7
    rng = np.random.RandomState(0)
    i = 0
    while i < len(inc):
        k = rng.randint(0, 9)
        if rng.rand() < 0.3 and i < len(inc):
            pr = B.predict(inc.iloc[i])
        r = B.integrate(inc.iloc[i:i+k]); i += k
    print(wa, 'equal', A.trajectory.equals(B.trajectory), (A.trajectory.values == B.trajectory.values).all(), A.trajectory.index.equals(B.trajectory.index), A.trajectory.dtypes.equals(B.trajectory.dtypes))
# INITIAL_SIZE small
class SmallI(strapdown.Integrator):
    INITIAL_SIZE = 4
C = SmallI(traj.iloc[0]); 
for i in range(0, len(inc), 3):
    C.predict(inc.iloc[i]); C.integrate(inc.iloc[i:i+3])
A = strapdown.Integrator(traj.iloc[0]); A.integrate(inc)
print('small equal', (A.trajectory.values == C.trajectory.values).all(), len(C.lla))
