import warnings; warnings.filterwarnings('ignore')
import numpy as np, sys
import c09
from pyins import filters
seed=int(sys.argv[1])
orig=filters.run_feedback_filter
def spy(init,*a,**k):
    m=k['measurements']; inc=a[4]; start=init.name; end=inc.index[-1]
    r=orig(init,*a,**k)
    for x in m:
        e=np.asarray(x.data.index); e=e[(e>=start)&(e<end)]; got=np.asarray(r.innovations[type(x).__name__].index)
        print(type(x).__name__, len(e), len(got), 'missing', sorted(set(e)-set(got)), 'extra', sorted(set(got)-set(e)), 'end', end)
    return r
filters.run_feedback_filter=spy
print(c09.case(seed,'fb'))
