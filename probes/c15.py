import warnings; warnings.filterwarnings('ignore')
import numpy as np, pandas as pd
from scipy.integrate import solve_ivp
from scipy.spatial.transform import Rotation as Rot
from pyins import strapdown
from pyins.util import GYRO_COLS, ACCEL_COLS, THETA_COLS, DV_COLS
rng=np.random.RandomState(0)
def exact(tt, w, f):
    # state: q (scalar-last rot b0->? we use C (b(t)->b0) as matrix 9), s (3) integral of C f in b0
    def rhs(t,y):
        C=y[:9].reshape(3,3); om=w(t); W=np.array([[0,-om[2],om[1]],[om[2],0,-om[0]],[-om[1],om[0],0]])
        return np.hstack([(C@W).ravel(), C@f(t)])
    sol=solve_ivp(rhs,(tt[0],tt[-1]),np.hstack([np.eye(3).ravel(),np.zeros(3)]),method='DOP853',rtol=1e-13,atol=1e-15,t_eval=tt)
    C=sol.y[:9].T.reshape(-1,3,3); s=sol.y[9:].T
    th=np.array([Rot.from_matrix(C[k].T@C[k+1]).as_rotvec() for k in range(len(tt)-1)])
    dv=np.array([C[k].T@(s[k+1]-s[k]) for k in range(len(tt)-1)])
    return th,dv
def ladder(kind, stype, irregular=False):
    a=rng.uniform(-1,1,3)*1.5; b=rng.uniform(-1,1,3)*3; d=rng.uniform(-1,1,3)*15; e=rng.uniform(-1,1,3)*30
    if kind=='linear':
        w=lambda t: a+b*t; f=lambda t: d+e*t
        W=lambda t: a*t[:,None]+b*t[:,None]**2/2; Fi=lambda t: d*t[:,None]+e*t[:,None]**2/2
    else:
        wf=rng.uniform(2,15,3); ff=rng.uniform(2,15,3); wp=rng.uniform(0,6,3); fp=rng.uniform(0,6,3)
        w=lambda t: a*np.sin(wf*t+wp); f=lambda t: d*np.sin(ff*t+fp)+np.array([0,0,-9.8])
        W=lambda t: -a/wf*np.cos(wf*t[:,None]+wp); Fi=lambda t: -d/ff*np.cos(ff*t[:,None]+fp)+np.array([0,0,-9.8])*t[:,None]
    base=np.sort(np.r_[0,np.cumsum(rng.uniform(0.5,1.5,8))]) if irregular else np.arange(9.0)
    out=[]
    for h in [0.16,0.08,0.04,0.02,0.01,0.005]:
        tt=base*h
        if stype=='rate': data=np.array([np.r_[w(t),f(t)] for t in tt])
        else:
            Wv=W(tt); Fv=Fi(tt); inc=np.c_[np.diff(Wv,axis=0),np.diff(Fv,axis=0)]; data=np.vstack([inc[:1],inc])
            if irregular:  # first "before" sample: pretend previous interval same length: use exact integral over [t0-h0, t0]
                h0=tt[1]-tt[0]; t_1=np.array([tt[0]-h0,tt[0]]); data[0]=np.r_[np.diff(W(t_1),axis=0)[0],np.diff(Fi(t_1),axis=0)[0]]
            else:
                t_1=np.array([tt[0]-h,tt[0]]); data[0]=np.r_[np.diff(W(t_1),axis=0)[0],np.diff(Fi(t_1),axis=0)[0]]
        imu=pd.DataFrame(data,index=tt,columns=GYRO_COLS+ACCEL_COLS)
        inc=strapdown.compute_increments_from_imu(imu,stype)
        th,dv=exact(tt,w,f)
        eth=np.abs(inc[THETA_COLS].values-th)[1:].max(); edv=np.abs(inc[DV_COLS].values-dv)[1:].max()
        if kind=='linear':
            hh=np.diff(tt)[:,None]; ak=np.array([w(t) for t in tt[:-1]]); dk=np.array([f(t) for t in tt[:-1]])
            corr=np.cross(ak,np.cross(ak,dk))*hh**3/6
            edv2=np.abs(inc[DV_COLS].values+corr-dv)[1:].max()
        else: edv2=np.nan
        out.append((h,eth,edv,edv2))
    o=np.array(out); sl=np.log2(o[:-1,1:]/o[1:,1:])
    print(kind,stype,'irregular' if irregular else 'uniform'); 
    for r,s in zip(out,np.vstack([sl,[np.nan]*3])): print('   h %.3f  eth %.2e (%.2f)  edv %.2e (%.2f)  edv-corr %.2e (%.2f)'%(r[0],r[1],s[0],r[2],s[1],r[3],s[2]))
for kind in ('linear','sine'):
    for st in ('rate','increment'):
        for irr in (False,True): ladder(kind,st,irr)
