import warnings; warnings.filterwarnings('ignore')
import sys, ast, inspect, time, numpy as np, pandas as pd
from pyins import filters, sim, strapdown, measurements
class NonTermination(Exception): pass
def while_lines(fn):
    src = inspect.getsource(fn); tree = ast.parse(src); base = fn.__code__.co_firstlineno
    return [base + n.lineno - 1 for n in ast.walk(tree) if isinstance(n, ast.While)]
mon = sys.monitoring; TOOL = 4
mon.use_tool_id(TOOL, 'rv')
state = {'lines': 0, 'iters': 0, 'cursors': []}
def install(fn, budget_iters, cursor_names):
    code = fn.__code__; wl = set(while_lines(fn))
    def cb(c, line):
        state['lines'] += 1
        if line in wl:
            state['iters'] += 1
            f = sys._getframe(1)
            state['cursors'].append(tuple(f.f_locals.get(n) for n in cursor_names))
            if state['iters'] > budget_iters:
                raise NonTermination(f'{state["iters"]} loop-header visits > budget {budget_iters}')
    mon.register_callback(TOOL, mon.events.LINE, cb)
    mon.set_local_events(TOOL, code, mon.events.LINE)
traj, imu = sim.generate_sine_velocity_motion(0.1, 20, [50, 60, 100], [1, -1, 0], [3, 3, 0])
pos = measurements.Position(sim.generate_position_measurements(traj.iloc[[5, 50]], 1, 0), 1)
install(filters.run_feedforward_filter, len(traj) + 2 + 2, ['index', 'measurement_time_index'])
t0 = time.time()
try:
    filters.run_feedforward_filter(traj, traj, 1, 1, 1, 1, measurements=[pos], time_step=0.1)
    print('returned', state['iters'])
except NonTermination as e:
    print('NonTermination:', e, 'lines', state['lines'], 'wall %.2f' % (time.time() - t0))
    print('last cursors', state['cursors'][-4:])
state.update(lines=0, iters=0, cursors=[])
t0 = time.time(); r = filters.run_feedforward_filter(traj, traj, 1, 1, 1, 1, measurements=[pos], time_step=1.0)
print('ok iters', state['iters'], 'lines', state['lines'], 'wall %.2f' % (time.time() - t0), state['cursors'][:4])
