import warnings; warnings.filterwarnings('ignore')
import numpy as np, pandas as pd
from pyins import earth, transform, util, sim, error_model, filters, strapdown, measurements, inertial_sensor
from pyins.util import *
rng=np.random.RandomState(0)
traj, imu = sim.generate_sine_velocity_motion(0.05, 20, [50, 60, 100], [5, -3, 0.4], [3, 3, 1.5], 20)
imu2=imu.copy(); imu2['accel_z']+=5*np.sin(np.asarray(imu.index))
inc=strapdown.compute_increments_from_imu(imu2,'rate')
pos=measurements.Position(sim.generate_position_measurements(traj.iloc[20::60],1,0),1,[1,2,3]); vel=measurements.NedVelocity(sim.generate_ned_velocity_measurements(traj.iloc[35::60],.5,0),.5); bv=measurements.BodyVelocity(sim.generate_body_velocity_measurements(traj.iloc[50::60],.2,0),.2)
init=traj.iloc[0].copy(); init['VD']=3.0
mk=lambda: (inertial_sensor.EstimationModel(bias_sd=1e-4,noise=1e-5),inertial_sensor.EstimationModel(bias_sd=1e-2,noise=1e-3))
g,a=mk(); fb=filters.run_feedback_filter(init,10,1,1,1,inc,g,a,measurements=[pos,vel,bv],time_step=0.5,with_altitude=False)
print('C13 fb: VD all zero',(fb.trajectory.VD.values==0).all(),'alt const',(fb.trajectory.alt.values==init.alt).all(),'sd down/VD zero',(fb.trajectory_sd[['down','VD']].values==0).all(), fb.trajectory_sd[['down','VD']].abs().max().values)
I=strapdown.Integrator(init,False); I.integrate(inc); comp=I.trajectory
g,a=mk(); ff=filters.run_feedforward_filter(comp,comp,10,1,1,1,g,a,measurements=[pos,vel,bv],time_step=0.5,with_altitude=False)
print('C13 ff: sd down/VD', ff.trajectory_sd[['down','VD']].abs().max().values, 'traj alt changed', np.abs(ff.trajectory.alt-comp.alt.loc[ff.trajectory.index]).max(), 'VD', np.abs(ff.trajectory.VD).max())
# C14 round trip
for st in ('rate','increment'):
    T=np.eye(3)+1e-2*rng.randn(3,3); b=rng.randn(3)*1e-2
    t=np.cumsum(rng.uniform(0.005,0.02,50)); x=pd.DataFrame(rng.randn(50,3),index=t,columns=THETA_COLS)
    p=inertial_sensor.Parameters(transform=T,bias=b); y=p.apply(x,st)
    m=inertial_sensor.EstimationModel(bias_sd=1,scale_misal_sd=np.ones((3,3)))
    target=pd.Series(np.r_[b,(T-np.eye(3)).ravel()],index=m.states)
    assert list(p.data_frame.columns)==m.states, (list(p.data_frame.columns),m.states)
    m.update_estimates(0.3*target.values); m.update_estimates(0.7*target.values)
    dt=np.r_[t[1]-t[0],np.diff(t)]
    if st=='increment':
        back=m.correct_increments(pd.Series(dt,index=t),y); print('C14',st,'roundtrip',np.abs(back.values-x.values).max())
    else:
        H=m.output_matrix(x.values); err=np.einsum('kij,j->ki',H,target.values); print('C14',st,'H@state vs error',np.abs((y.values-x.values)-err).max())
    print('   get_estimates',np.abs(m.get_estimates()-target).max())
# C06 simulators
em=error_model.InsErrorModel()
for k in (20,80,140):
    t=traj.index[k]
    z,H,R=measurements.Position(sim.generate_position_measurements(traj.iloc[[k]],0.0,0),1).compute_matrices(t,traj.iloc[k],em); print('C06 pos z at truth',np.abs(z).max())
class Rec(np.random.RandomState):
    def randn(self,*s): return np.ones(s)*np.array([1.,-2,3])
k=50; t=traj.index[k]
z,_,_=measurements.Position(sim.generate_position_measurements(traj.iloc[[k]],2.0,Rec()),1).compute_matrices(t,traj.iloc[k],em); print(' pos z with e=[2,-4,6]',z)
z,_,_=measurements.NedVelocity(sim.generate_ned_velocity_measurements(traj.iloc[[k]],2.0,Rec()),1).compute_matrices(t,traj.iloc[k],em); print(' vel z',np.asarray(z))
z,_,_=measurements.BodyVelocity(sim.generate_body_velocity_measurements(traj.iloc[[k]],2.0,Rec()),1).compute_matrices(t,traj.iloc[k],em); print(' body z',np.asarray(z))
print(' absent time ->', measurements.Position(sim.generate_position_measurements(traj.iloc[[k]],2.0,0),1).compute_matrices(t+1e-9,traj.iloc[k],em))
