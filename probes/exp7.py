import numba, numpy as np, os
print('BOUNDSCHECK', numba.config.BOUNDSCHECK)
@numba.njit
def f(a, n):
    for i in range(n):
        a[i, 0] = 1.0
a = np.zeros((4, 3))
try:
    f(a, 5); print('no error')
except Exception as e:
    print(type(e).__name__, e)
