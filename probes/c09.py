import warnings; warnings.filterwarnings('ignore')
import numpy as np, pandas as pd, sys, signal, traceback
from pyins import filters, sim, strapdown, measurements, inertial_sensor, transform
from pyins.util import *
class TO(Exception): pass
signal.signal(signal.SIGALRM, lambda *a: (_ for _ in ()).throw(TO()))
traj0, imu0 = sim.generate_sine_velocity_motion(0.01, 12, [50, 60, 100], [5, -3, 0.2], [3, 3, 0.5], 20)
def case(seed, which):
    rng=np.random.RandomState(seed)
    # IMU stamps: pick subset of fine grid
    kind=rng.choice(['uniform','jitter','gaps'])
    step=rng.choice([5,10,20])
    if kind=='uniform': ii=np.arange(0,1200,step)
    elif kind=='jitter': ii=np.unique(np.cumsum(rng.randint(max(1,step//2),step*2,size=1200//step))); ii=ii[ii<1200]; ii=np.r_[0,ii] if ii[0]!=0 else ii
    else:
        ii=np.arange(0,1200,step); drop=rng.randint(5,len(ii)-5); ii=np.delete(ii,np.arange(drop,min(drop+rng.randint(2,30),len(ii)-2)))
    imu=imu0.iloc[ii]; traj=traj0.iloc[ii]
    inc=strapdown.compute_increments_from_imu(imu,'rate')
    t=np.asarray(traj.index); start,end=t[0],t[-1]
    def epochs():
        m=rng.choice(['on','off','mixed','none','outside'])
        k=rng.randint(1,8)
        if m=='none': return np.array([])
        if m=='outside': return np.r_[start-rng.rand(2)-0.01, end+rng.rand(2)]
        on=rng.choice(t,k); off=rng.uniform(start-0.5,end+0.5,k)
        e={'on':on,'off':off,'mixed':np.r_[on,off,start,end,np.nextafter(rng.choice(t[1:]),0)]}[m]
        return np.unique(e)
    meas=[]
    shared=epochs()
    for cls in range(3):
        if rng.rand()<0.25: continue
        e=epochs() if rng.rand()<0.6 else shared
        if len(e)==0: e=np.array([end+5.0])
        # need data rows: interpolate truth within span else copy edge
        ref=traj0.iloc[np.clip(np.searchsorted(traj0.index,e),0,len(traj0)-1)].copy(); ref.index=e
        if cls==0: meas.append(measurements.Position(sim.generate_position_measurements(ref,1,0),1,[1,0,0] if rng.rand()<0.5 else None))
        if cls==1: meas.append(measurements.NedVelocity(sim.generate_ned_velocity_measurements(ref,0.5,0),0.5))
        if cls==2: meas.append(measurements.BodyVelocity(sim.generate_body_velocity_measurements(ref,0.2,0),0.2))
    if not meas: meas=[measurements.Position(sim.generate_position_measurements(traj0.iloc[[0]].set_axis([end+9.]),1,0),1)]
    ts=float(rng.choice([0.003,0.05,0.1,0.37,1.0,50.0])); wa=bool(rng.rand()<0.5)
    allm=np.unique(np.hstack([np.asarray(m.data.index) for m in meas])); allm=allm[(allm>=start)&(allm<end)]
    # classify clustering: count epochs per IMU interval
    cnt=np.bincount(np.searchsorted(t,allm,side='right'),minlength=len(t)+1).max() if len(allm) else 0
    signal.alarm(60)
    try:
        if which=='fb':
            r=filters.run_feedback_filter(traj.iloc[0],1,1,1,1,inc,inertial_sensor.EstimationModel(bias_sd=1e-4),inertial_sensor.EstimationModel(bias_sd=1e-2),measurements=meas,time_step=ts,with_altitude=wa)
            ok=list(r.trajectory.index)==list(t)
        else:
            r=filters.run_feedforward_filter(traj,traj,1,1,1,1,inertial_sensor.EstimationModel(bias_sd=1e-4),inertial_sensor.EstimationModel(bias_sd=1e-2),measurements=meas,time_step=ts,with_altitude=wa)
            ok=True
        signal.alarm(0)
        sdi=np.asarray(r.trajectory_sd.index); ok2=(np.diff(sdi)>0).all() and np.isin(sdi,t).all()
        fin=all(np.isfinite(np.asarray(r[k],float)).all() for k in ('trajectory','trajectory_sd','gyro','gyro_sd','accel','accel_sd'))
        inn_ok=True
        for m in meas:
            e=np.asarray(m.data.index); e=e[(e>=start)&(e<end)]; got=np.asarray(r.innovations[type(m).__name__].index)
            if which=='fb': inn_ok&= len(got)==len(e) and np.array_equal(got,e)
            else: inn_ok&= len(got)==len(e) and (np.diff(got)>=0).all()
        status='OK' if ok and ok2 and fin and inn_ok else 'BAD idx=%s sd=%s fin=%s inn=%s'%(ok,ok2,fin,inn_ok)
    except TO: status='TIMEOUT'
    except Exception as ex: signal.alarm(0); status='EXC %s %s'%(type(ex).__name__,str(ex)[:60])
    return status,kind,step,ts,cnt
if __name__=='__main__':
    which=sys.argv[1]; a,b=int(sys.argv[2]),int(sys.argv[3])
    for s in range(a,b):
        st=case(s,which)
        if st[0]!='OK': print(s,which,*st)
    print('done')
