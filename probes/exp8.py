import warnings
import numpy as np, pandas as pd
from pyins import sim, strapdown
warnings.filterwarnings('ignore')
traj, imu = sim.generate_sine_velocity_motion(0.1, 5, [50, 60, 100], [1, -1, 0.3], [3, 3, 1])
inc = strapdown.compute_increments_from_imu(imu, 'rate')
I = strapdown.Integrator(traj.iloc[0])
try:
    r = I.integrate(inc.iloc[0:0]); print('empty ok', r.shape, I.trajectory.shape, I.trajectory.index.dtype, I.trajectory.dtypes.unique())
except Exception as e:
    print('empty FAIL', type(e).__name__, e)
r = I.integrate(inc.iloc[:3]); print(r.index.tolist(), I.trajectory.index.name, r.index.name)
r = I.integrate(inc.iloc[3:3]); print('empty2', r.index.tolist())
p = I.predict(inc.iloc[3]); print(type(p), p.name, p.index.tolist())
r = I.integrate(inc.iloc[3:4]); print('pred==row', (r.iloc[-1].values == p.values).all(), r.iloc[-1].name == p.name)
print(I.get_time(), I.get_pva().name)
# index name preserved?
print(I.trajectory.index.name)
