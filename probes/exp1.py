import warnings; warnings.filterwarnings('ignore')
import numpy as np, pandas as pd
from pyins import filters, sim, strapdown, measurements, inertial_sensor, transform, util
# 1. feedback filter with measurements=None
traj, imu = sim.generate_sine_velocity_motion(0.1, 20, [50, 60, 100], [1, -1, 0], [3, 3, 0])
inc = strapdown.compute_increments_from_imu(imu, 'rate')
for m in (None, []):
    try:
        r = filters.run_feedback_filter(traj.iloc[0], 1, 1, 1, 1, inc, measurements=m, time_step=1)
        print('fb ok', m, len(r.trajectory))
    except Exception as e:
        print('fb FAIL', m, type(e).__name__, e)
    try:
        r = filters.run_feedforward_filter(traj, traj, 1, 1, 1, 1, measurements=m, time_step=1)
        print('ff ok', m, len(r.trajectory))
    except Exception as e:
        print('ff FAIL', m, type(e).__name__, e)
