import warnings; warnings.filterwarnings('ignore')
import numpy as np, pandas as pd, signal, sys
from pyins import filters, sim, strapdown, measurements, inertial_sensor, transform, util
traj, imu = sim.generate_sine_velocity_motion(0.1, 20, [50, 60, 100], [1, -1, 0], [3, 3, 0])
inc = strapdown.compute_increments_from_imu(imu, 'rate')
pos = measurements.Position(sim.generate_position_measurements(traj.iloc[[5, 50]], 1, 0), 1)
class TO(Exception): pass
def h(*a): raise TO()
signal.signal(signal.SIGALRM, h)
for ts in (0.05, 0.1, 0.5, 1.0):
    signal.alarm(5)
    try:
        r = filters.run_feedforward_filter(traj, traj, 1, 1, 1, 1, measurements=[pos], time_step=ts)
        signal.alarm(0)
        idx = r.trajectory.index
        print('ff ok ts', ts, len(idx), 'strictly inc', bool((np.diff(idx) > 0).all()), 'maxstep', np.diff(idx).max())
    except TO:
        print('ff TIMEOUT ts', ts)
    except Exception as e:
        signal.alarm(0)
        print('ff FAIL', ts, type(e).__name__, e)
