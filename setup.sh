#!/bin/bash
# Offline set-up: put the contract / high-precision libraries beside the
# repository's own interpreter, in a git-ignored directory next to this file.
set -e
ROOT="$(cd "$(dirname "$0")" && pwd)"
DEPS="$ROOT/.deps"
if [ ! -f "$DEPS/.ok" ]; then
    # another check may be installing concurrently: serialise on a lock dir
    exec 9>"$ROOT/.deps.lock"
    flock 9
    if [ ! -f "$DEPS/.ok" ]; then
        rm -rf "$DEPS"
        PIP_NO_INDEX=1 /venv/bin/pip install -q --no-index \
            --find-links /opt/veriftools/wheels --target "$DEPS" \
            icontract mpmath >/dev/null 2>&1
        touch "$DEPS/.ok"
    fi
fi
mkdir -p "$ROOT/evidence" "$ROOT/replays" "$ROOT/.cache"
